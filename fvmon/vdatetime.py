"""Stand-in for the ``datetime`` module inside formulas.functions.date: the
same names, with ``datetime.now()`` / ``date.today()`` reading a virtual clock
that only the monitor advances (P-vol probe of C13).

The state lives on the ``sys`` module: serialisers that copy this module's
globals by value (dill does for classes defined here) then cannot fork it.
"""
import sys
import datetime as _dt
from datetime import *          # noqa: F401,F403

if not hasattr(sys, '_fvmon_vol'):
    sys._fvmon_vol = {'clock': _dt.datetime(2031, 3, 7, 5, 11, 13), 'reads': 0,
                      'k': 0, 'tick': 0, 'seen': []}

BITS = 20
MOD = 1 << BITS
MUL = 0x9E3779B1 % MOD | 1          # odd: k -> k * MUL mod 2**20 is a bijection
INV = pow(MUL, -1, MOD)


def state():
    return sys._fvmon_vol


def _read():
    s = sys._fvmon_vol
    s['reads'] += 1
    t = s['clock']
    s['seen'].append(t)
    del s['seen'][:-64]
    if s['tick']:                   # hostile mode: time passes between reads
        s['clock'] = t + _dt.timedelta(seconds=s['tick'])
    return t


class datetime(_dt.datetime):
    @classmethod
    def now(cls, tz=None):
        return _read()

    today = utcnow = now


class date(_dt.date):
    @classmethod
    def today(cls):
        return _read().date()


def counting_rand(*shape):
    """k-th call returns ((k * MUL mod 2**20) + 1/2) / 2**20: unique, spread
    over [0, 1), exactly representable - a value identifies the call that
    produced it (decode)."""
    if shape:
        raise TypeError('counting_rand: only the scalar form is monitored')
    s = sys._fvmon_vol
    k = s['k']
    s['k'] = k + 1
    if s.get('hostile'):            # boundary draws of a generator on [0, 1)
        return s['hostile'][k % len(s['hostile'])]
    return value_of(k)


# what a correct generator on [0, 1) may return at its edges
BOUNDARY = (1.0 - 2.0 ** -53, 0.0, 1.0 - 2.0 ** -52, 5e-324, 2.0 ** -53,
            0.9999999999999994, 0.5, 0.49999999999999994)


def value_of(k):
    return ((k * MUL) % MOD + 0.5) / MOD


def decode(v, tol=1e-3):
    """index k (mod 2**20) of the call that returned v, or None."""
    x = v * MOD - 0.5
    j = round(x)
    if abs(x - j) > tol or not 0 <= j < MOD:
        return None
    return (j * INV) % MOD


def advance(days=1, seconds=3671):
    s = sys._fvmon_vol
    s['clock'] = s['clock'] + _dt.timedelta(days=days, seconds=seconds)
    return s['clock']


def serial(d=None, date_only=False):
    """Excel 1900-system serial of the virtual clock."""
    d = d or sys._fvmon_vol['clock']
    n = (_dt.datetime(d.year, d.month, d.day) - _dt.datetime(1899, 12, 30)).days
    if date_only:
        return float(n)
    return n + (d.hour * 3600 + d.minute * 60 + d.second) / 86400.0


def install():
    """Must run before formulas.functions.math is imported (RAND binds
    numpy.random.rand at import time)."""
    import numpy as np
    if 'formulas.functions.math' in sys.modules:
        raise RuntimeError('volatile probe installed too late')
    np.random.rand = counting_rand
    import formulas.functions.date as fd
    fd.datetime = sys.modules[__name__]
