"""Running the library on workbook descriptions and reading solutions back."""
import os
import shutil

from . import xl
from .gen import workbooks as gw
from .ref import workbook as rw
from .ref.ranges import rect_of


def load_dict(desc, order=None):
    import formulas
    return formulas.ExcelModel().from_dict(gw.to_dict(desc, order))


def load_xlsx(desc, dirpath, sheet_order=None, book_order=None, finish=True,
              **finish_kw):
    import formulas
    if os.path.exists(dirpath):
        shutil.rmtree(dirpath)
    os.makedirs(dirpath)
    paths = gw.write_xlsx(desc, dirpath, sheet_order)
    if book_order:
        paths = book_order(paths)
    m = formulas.ExcelModel().loads(*paths)
    if finish:
        m.finish(**finish_kw)
    return m, paths


def solution_cells(desc, sol, keys=None):
    """(b, s, c, r) -> canonical observed value | ('missing',)

    A cell that is no node of its own is looked up in the solved range nodes
    that cover it (array formulas)."""
    from formulas.ranges import Ranges
    out = {}
    ranges = None
    ev = rw.Evaluator(desc)
    keys = keys if keys is not None else list(ev.cells) + list(ev.owner)
    for key in keys:
        k = gw.key_of(desc, *key)
        v = sol.get(k)
        if v is None:
            if ranges is None:
                ranges = []
                for n, r in sol.items():
                    if isinstance(r, Ranges) and len(r.ranges) == 1 and \
                            isinstance(n, str) and ':' in n:
                        ranges.append((rect_of(r.ranges[0]), r))
            sid = gw.sheet_id(desc['books'][key[0]]['name'],
                              desc['books'][key[0]]['sheets'][key[1]]['name'])
            for (s, c1, r1, c2, r2), r in ranges:
                if s == sid and c1 <= key[2] <= c2 and r1 <= key[3] <= r2 \
                        and (c2 - c1) * (r2 - r1) < 10000:
                    try:
                        v = r.value[key[3] - r1, key[2] - c1]
                        break
                    except Exception:
                        continue
            else:
                out[key] = ('missing',)
                continue
            out[key] = xl.canon(v)
            continue
        try:
            out[key] = xl.canon(xl.scalar(v))
        except Exception as ex:
            out[key] = ('foreign', 'unreadable:' + type(ex).__name__)
    return out


def compare_with_reference(desc, observed, ctx, sig_prefix, case, overrides=None,
                           ref=None, rel=1e-9, annotate=None, skip=()):
    """Reports every populated cell whose observed value is not the reference
    value.  Returns the number of cells judged."""
    ev = ref or rw.Evaluator(desc, overrides)
    want = ev.solution()
    n = 0
    for key, w in want.items():
        if w is rw.UNKNOWN:
            ctx.count('ref.unknown')
            continue
        if key in skip:
            continue
        o = observed.get(key, ('missing',))
        n += 1
        if w == xl.BLANK and o == xl.c_num(0):
            continue
        if not xl.same(o, w, rel=rel):
            cell = ev.cells.get(key) or {}
            form = 'array-member' if key in ev.owner else (
                _form(cell.get('f')) if 'f' in cell else 'constant')
            extra = annotate(key) if annotate else {}
            tag = extra.pop('_tag', '') if extra else ''
            ctx.violation('%s:%s%s:%s->%s' % (sig_prefix, tag, form, _cls(o), _cls(w)), dict(extra, **{
                'case': case, 'cell': gw.key_of(desc, *key),
                'formula': gw.formula_text(desc, cell['f'], None, True)
                if 'f' in cell else None,
                'observed': xl.show(o), 'accepted': [xl.show(w)]}))
    ctx.count('ref.cells-compared', n)
    return n


def _cls(c):
    if c[0] == 'err':
        return c[1]
    return c[0]


def _form(t):
    """Reference forms used by a formula tree (signature + coverage)."""
    forms = set()

    def walk(x):
        if not isinstance(x, list) or not x:
            return
        if x[0] in ('cell', 'rng', 'row', 'col', 'name'):
            forms.add(x[0])
        elif x[0] == 'call':
            forms.add(x[1])
            for a in x[2]:
                walk(a)
        elif x[0] == 'bin':
            walk(x[2])
            walk(x[3])
    walk(t)
    return '+'.join(sorted(forms)) or 'literal'


def forms_of(desc):
    out = set()
    for b, s, addr, cell in gw.iter_cells(desc):
        if 'f' in cell:
            out.update(_form(cell['f']).split('+'))
            if 'arr' in cell:
                out.add('array-formula')
            _cross(desc, cell['f'], b, s, out)
    return out


def _cross(desc, t, b, s, out):
    if not isinstance(t, list) or not t:
        return
    if t[0] in ('cell', 'rng', 'row', 'col'):
        if t[1] != b:
            out.add('cross-book')
        elif t[2] != s:
            out.add('cross-sheet')
    elif t[0] == 'call':
        for a in t[2]:
            _cross(desc, a, b, s, out)
    elif t[0] == 'bin':
        _cross(desc, t[2], b, s, out)
        _cross(desc, t[3], b, s, out)


def digest(observed):
    import hashlib
    import json
    items = sorted((list(k), v) for k, v in observed.items())
    return hashlib.blake2b(json.dumps(items, default=repr).encode(),
                           digest_size=8).hexdigest()


# ---------------------------------------------------------------------------
# overrides / inputs
# ---------------------------------------------------------------------------

VALUE_POOL = [5.0, -3.0, 0.0, 12.0, 100.0, 2.5, 'txt', 'Q', '', True, False,
              '#N/A', '#DIV/0!', 7.0, 1.0, 9.0]


def py_value(v):
    """description constant -> value handed to the library"""
    if isinstance(v, str) and v.startswith('#'):
        return xl.err(v)
    return v


def canon_value(v):
    if isinstance(v, str) and v.startswith('#'):
        return xl.c_err(v)
    return xl.canon(v)


def constant_cells(desc):
    out = []
    for b, s, addr, cell in gw.iter_cells(desc):
        if 'v' in cell:
            out.append((b, s) + gw.split_addr(addr))
    return out


def formula_cells(desc, with_arrays=False):
    out = []
    for b, s, addr, cell in gw.iter_cells(desc):
        if 'f' in cell and ('arr' not in cell or with_arrays):
            out.append((b, s) + gw.split_addr(addr))
    return out


def node_key(desc, key):
    """library node id of a cell key (array anchors -> their range id)."""
    b, s, c, r = key
    cell = desc['books'][b]['sheets'][s]['cells'].get('%s%d' % (
        gw.col_name(c), r))
    if cell and 'arr' in cell:
        return gw.rect_key(desc, b, s, *cell['arr'])
    return gw.key_of(desc, *key)


def observed_outputs(desc, sol_or_list, out_keys, node_ids):
    """Values of requested cell outputs from a solution mapping or from the
    list a compiled function returns (same order as node_ids)."""
    if isinstance(sol_or_list, dict) or hasattr(sol_or_list, 'items'):
        get = lambda n: sol_or_list.get(n)
    else:
        vals = sol_or_list if isinstance(sol_or_list, (list, tuple)) else [sol_or_list]
        m = dict(zip(node_ids, vals))
        get = lambda n: m.get(n)
    out = {}
    for key, n in zip(out_keys, node_ids):
        v = get(n)
        if v is None:
            out[key] = ('missing',)
        else:
            try:
                out[key] = xl.canon(xl.unwrap(v))
                if out[key][0] == 'arr' and len(out[key]) == 2 and len(out[key][1]) == 1:
                    out[key] = out[key][1][0]
            except Exception as ex:
                out[key] = ('foreign', type(ex).__name__)
    return out


def refs_in(desc, t, out=None):
    """Set of cells (b, s, c, r) a formula tree reads (rectangles expanded,
    whole rows/columns clipped to columns/rows 1..12)."""
    out = set() if out is None else out
    if not isinstance(t, list) or not t:
        return out
    k = t[0]
    if k == 'name':
        target = desc['names'][t[1]]
        refs_in(desc, target[2] if target[0] == 'val' else target, out)
    elif k == 'cell':
        out.add(tuple(t[1:5]))
    elif k == 'rng':
        b, s, c1, r1, c2, r2 = t[1:7]
        out.update((b, s, c, r) for c in range(c1, c2 + 1) for r in range(r1, r2 + 1))
    elif k == 'row':
        out.update((t[1], t[2], c, r) for c in range(1, 13) for r in range(t[3], t[4] + 1))
    elif k == 'col':
        out.update((t[1], t[2], c, r) for c in range(t[3], t[4] + 1) for r in range(1, 13))
    elif k == 'bin':
        refs_in(desc, t[2], out)
        refs_in(desc, t[3], out)
    elif k == 'call':
        for a in t[2]:
            refs_in(desc, a, out)
    return out


def downstream(desc, sources):
    """All populated cells depending (transitively) on any cell of sources."""
    ev = rw.Evaluator(desc)
    deps = {}
    for key, cell in ev.cells.items():
        if 'f' in cell:
            deps[key] = refs_in(desc, cell['f'])
    for key, anchor in ev.owner.items():
        deps[key] = deps.get(anchor, set()) | {anchor}
    hit = set(sources)
    changed = True
    while changed:
        changed = False
        for key, rs_ in deps.items():
            if key not in hit and rs_ & hit:
                hit.add(key)
                changed = True
    return hit


def upstream(desc, targets):
    """All cells the target cells transitively read (targets included)."""
    ev = rw.Evaluator(desc)
    seen, stack = set(), list(targets)
    while stack:
        k = stack.pop()
        if k in seen:
            continue
        seen.add(k)
        if k in ev.owner:
            stack.append(ev.owner[k])
        cell = ev.cells.get(k)
        if cell and 'f' in cell:
            stack.extend(refs_in(desc, cell['f']))
    return seen
