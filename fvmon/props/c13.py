"""C13 - volatile functions are never frozen and are seen consistently.

Probe P-vol (fvmon.vdatetime): numpy.random.rand is replaced, before the
function library binds it, by a counting generator whose k-th value is unique
and decodable, and the datetime module seen by formulas.functions.date by a
virtual clock that only the monitor advances (optionally ticking one second
per read).  A value therefore identifies the primitive call / clock reading
it came from, and "fresh" becomes a decidable statement about one epoch
(= one calculate() or one call of a compiled function):

* formula cases: a RAND / NOW / TODAY call is planted at a random position of
  a random operator/function tree; the result of every epoch must equal the
  library's own result for the same tree with the call sites replaced by
  literals of a primitive value produced *during that epoch*; equality with a
  value of an earlier epoch (or of compile time) only is a frozen value.
* RANDBETWEEN cases: exactly invertible wrappers; the site value must be an
  integer within [ceil(bottom), floor(top)] of the *current* arguments and must
  not repeat over all epochs when the interval is wide.
* workbook cases: numeric constants of a generated workbook that have
  dependents are replaced by volatile cells; per epoch every volatile cell
  must decode to a primitive of this epoch, and every other cell must equal
  the reference evaluation with the volatile cells fixed to the values the
  solution reports for them (every dependent sees that single value).

Every case is run through several ways of obtaining the executable object.
"""
import copy
import json
import math
import random
import itertools

from .. import xl, wbrun, vdatetime as vd
from ..gen import workbooks as gw, formulas as gf

ID = 'C13'
LEVEL = 'exploration'
RULE = ('formula cases: (tree with 1-2 planted volatile calls, way of '
        'obtaining the function, per-epoch argument tuples); RANDBETWEEN '
        'cases: (wrapper, bounds as literals or references, way, arguments); '
        'workbook cases: (workbook description with volatile cells, way of '
        'obtaining the model or compiled function, epochs); distinct = '
        'distinct (case, way); non-trivial = at least one epoch was decoded '
        'against the primitives of that epoch')
ASSUMPTIONS = [
    'RAND draws from numpy.random.rand and NOW/TODAY read datetime.now() of '
    'formulas.functions.date (the probe replaces exactly these; the floors '
    'fail the run if no primitive event is seen)',
    'two call sites may share one primitive value (the property does not '
    'forbid it); only values of an earlier epoch are stale',
    'results that no primitive of any epoch explains are counted, not judged '
    '(they belong to the operator properties C01/C02)',
]

VOL = ('RAND', 'NOW', 'TODAY')
FWAYS = ('compile', 'recompile', 'deepcopy', 'dill')
MWAYS = ('dict', 'json', 'deepcopy', 'dill', 'xlsx', 'compile', 'compile-deepcopy',
         'compile-dill', 'deepcopy+compile', 'dill+compile', 'json+compile')
LIT_POOL = [2.0, 3.0, 5.0, 0.0, 1.5, 7.0, 'a', 'x y', '', True, False, 12.0]
_installed = []


def _install():
    if not _installed:
        vd.install()
        _installed.append(1)


# -- epochs --------------------------------------------------------------------

class Epoch:
    """Bracket of one calculation: which primitives belong to it."""

    def __init__(self, tick=0, hostile=None):
        self.s = vd.state()
        self.s['tick'] = tick
        self.s['hostile'] = hostile
        vd.advance(days=1, seconds=3671)
        self.t0 = self.s['clock']
        self.k0 = self.s['k']
        self.r0 = self.s['reads']

    def close(self):
        self.k1 = self.s['k']
        self.nreads = self.s['reads'] - self.r0
        self.s['tick'] = 0
        self.s['hostile'] = None
        return self

    # candidates that count as "of this epoch"
    def rand_values(self, extra=1):
        return [vd.value_of(k) for k in range(self.k0, self.k1 + extra)]

    def clocks(self):
        import datetime
        tick = 1 if self.nreads > 1 else 0
        n = max(self.nreads, 1)
        return [self.t0 + datetime.timedelta(seconds=j * tick)
                for j in range(min(n, 400))]

    def now_values(self):
        return sorted({vd.serial(t) for t in self.clocks()})

    def today_values(self):
        return sorted({vd.serial(t, date_only=True) for t in self.clocks()})

    def fresh_rand(self, v):
        k = vd.decode(v)
        return k is not None and self.k0 <= k < max(self.k1, self.k0 + 1), k


def _near(v, cands, tol=2e-10):
    return any(abs(v - c) <= tol * max(1.0, abs(c)) for c in cands)


# -- formula cases ---------------------------------------------------------------

def _paths(t, path=()):
    """Positions where a call may be planted (not inside array constants)."""
    out = [path]
    k = t[0]
    if k == 'bin':
        out += _paths(t[2], path + (2,)) + _paths(t[3], path + (3,))
    elif k == 'un':
        out += _paths(t[2], path + (2,))
    elif k == 'pct':
        out += _paths(t[1], path + (1,))
    elif k == 'call':
        for i, a in enumerate(t[2]):
            if a[0] not in ('empty', 'arr'):
                out += _paths(a, path + (2, i))
    return out


def _replace(t, path, new):
    if not path:
        return new
    t = list(t)
    if t[0] == 'call' and path[0] == 2:
        args = list(t[2])
        args[path[1]] = _replace(args[path[1]], path[2:], new)
        t[2] = args
        return t
    t[path[0]] = _replace(t[path[0]], path[1:], new)
    return t


def _sites(t, out=None, path=()):
    out = [] if out is None else out
    k = t[0]
    if k == 'call' and t[1] in VOL and not t[2]:
        out.append((path, t[1]))
    elif k == 'bin':
        _sites(t[2], out, path + (2,))
        _sites(t[3], out, path + (3,))
    elif k == 'un':
        _sites(t[2], out, path + (2,))
    elif k == 'pct':
        _sites(t[1], out, path + (1,))
    elif k == 'call':
        for i, a in enumerate(t[2]):
            _sites(a, out, path + (2, i))
    return out


def _lit(v):
    if isinstance(v, bool):
        return ['bool', v]
    if isinstance(v, str):
        return ['str', v]
    v = float(v)
    if v < 0:
        return ['un', '-', ['num', repr(-v)]]
    return ['num', repr(v)]


def _subst_refs(t, env):
    k = t[0]
    if k == 'ref':
        return _lit(env[t[1].upper()])
    if k == 'bin':
        return ['bin', t[1], _subst_refs(t[2], env), _subst_refs(t[3], env)]
    if k == 'un':
        return ['un', t[1], _subst_refs(t[2], env)]
    if k == 'pct':
        return ['pct', _subst_refs(t[1], env)]
    if k == 'call':
        return ['call', t[1], [_subst_refs(a, env) for a in t[2]]]
    return t


def make_formula_case(rng, i):
    while True:
        t = gf.rand_tree(rng, rng.randint(0, 3), p_call=0.3, p_arr=0.0)
        n = 2 if rng.random() < 0.3 else 1
        for _ in range(n):
            t = _replace(t, rng.choice(_paths(t)), ['call', rng.choice(VOL), []])
        if _sites(t):
            break
    refs = gf.refs_of(t)
    envs = [{r: rng.choice(LIT_POOL) for r in refs} for _ in range(4)]
    return {'kind': 'formula', 'tree': t, 'envs': envs,
            'ways': [FWAYS[i % len(FWAYS)], FWAYS[(i // 4 + 1) % len(FWAYS)]],
            'tick': 1 if i % 5 == 0 else 0}


def _obtain_function(P, text, way):
    import dill
    fn = P.ast(text)[1].compile()
    if way == 'recompile':
        b = P.ast(text)[1]
        b.compile()
        fn = b.compile()
    elif way == 'deepcopy':
        fn = copy.deepcopy(fn)
    elif way == 'dill':
        fn = dill.loads(dill.dumps(fn))
    return fn


def _lib_eval(P, tree):
    text = gf.Speller(random.Random(0)).spell(tree)
    return xl.canon(xl.scalar(P.ast(text)[1].compile()()))


def check_formula_case(case, ctx):
    _install()
    import formulas
    P = formulas.Parser()
    t = case['tree']
    text = gf.Speller(random.Random(0)).spell(t)
    sites = _sites(t)
    kinds = '+'.join(sorted({k for _, k in sites}))
    history = []            # epochs of this case (all ways): stale candidates
    for way in case['ways']:
        ep0 = Epoch()       # compile time is an epoch of its own
        try:
            fn = _obtain_function(P, text, way)
            order = [k.upper() for k in fn.inputs]
        except Exception:
            ctx.count('formula.compile-raised')
            ep0.close()
            continue
        history.append(ep0.close())
        ctx.case((text, way))
        for e, env in enumerate(case['envs']):
            w = {'case': dict(case, ways=[way]), 'formula': text, 'way': way,
                 'epoch': e, 'arguments': env}
            ep = Epoch(tick=case.get('tick', 0) if e % 2 else 0)
            try:
                got = xl.canon(xl.scalar(fn(*[env[k] for k in order])))
            except Exception as ex:
                got = ('foreign', 'raised ' + type(ex).__name__)
            ep.close()
            base = _subst_refs(t, env)

            def explained(eps, extra):
                cands = []
                for _, k in sites:
                    vs = []
                    for x in eps:
                        vs += (x.rand_values(extra) if k == 'RAND' else
                               x.now_values() if k == 'NOW' else x.today_values())
                    cands.append(vs[-12:] if len(sites) > 1 else vs[-60:])
                for combo in itertools.product(*cands):
                    tt = base
                    for (path, _), v in zip(sites, combo):
                        tt = _replace(tt, path, _lit(v))
                    try:
                        want = _lib_eval(P, tt)
                    except Exception:
                        ctx.count('formula.literal-raised')
                        continue
                    if xl.same(got, want, rel=1e-12):
                        return True
                return False
            ctx.count('monitor.formula-epochs')
            if explained([ep], 1):
                ctx.count('fresh.formula.%s' % way)
                for _, k in sites:
                    ctx.count('prim.%s.%s' % (k, way))
                if ep.k1 > ep.k0 or ep.nreads:
                    ctx.count('fresh.formula.primitive-seen')
            elif explained(history[-6:], 0):
                ctx.violation('frozen:formula:%s:%s' % (kinds, way), dict(
                    w, observed=xl.show(got),
                    accepted=['the value for a primitive of this epoch '
                              '(rand calls %d..%d, clock %s)' % (
                                  ep.k0, ep.k1 - 1, ep.t0)]))
            else:
                ctx.count('formula.unexplained')
                ctx.see('unexplained', '%s -> %s' % (gf.render(t)[:60], xl.show(got)))
            history.append(ep)


# -- RANDBETWEEN cases -------------------------------------------------------------

WRAPPERS = ('id', 'plus', 'if', 'sum', 'neg', 'times1', 'nested-arg')


def make_rb_case(rng, i):
    wide = i % 2 == 0
    if wide:
        lo = rng.choice((1.0, -5e8, 0.0, 10.5, -3.25))
        hi = lo + rng.choice((1e6, 1e9, 2.5e7))
    else:
        lo = rng.choice((1.0, -3.0, 0.0, 1.5, 2.0, -0.5, 3.2, 7.0))
        hi = lo + rng.choice((0.0, 1.0, 2.0, 0.4, 0.7, 5.0, -1.0, 10.0))
    byref = rng.random() < 0.5
    envs = []
    for e in range(6):
        if byref and e:
            d = float(rng.randint(-3, 3)) * (1000.0 if wide else 1.0)
            envs.append({'A1': lo + d, 'B1': hi + d + (rng.choice((0.0, 1.0, 0.5)))})
        else:
            envs.append({'A1': lo, 'B1': hi})
    computed = None
    if i % 5 == 4:
        # bounds computed by functions that hand over numpy integers
        computed = ('gcd-lcm', 'match')[(i // 5) % 2]
        lo, hi = (2.0, 6.0) if computed == 'gcd-lcm' else (1.0, 3.0)
        byref, wide, envs = False, False, [{'A1': lo, 'B1': hi} for _ in range(6)]
    return {'kind': 'rb', 'wrapper': WRAPPERS[i % len(WRAPPERS)], 'byref': byref,
            'computed': computed,
            'c': float(rng.randint(-4, 9)), 'envs': envs, 'wide': wide,
            'ways': [FWAYS[i % len(FWAYS)], FWAYS[(i // 4 + 2) % len(FWAYS)]]}


def _rb_tree(case):
    env = case['envs'][0]
    if case['byref']:
        lo, hi = ['ref', 'A1'], ['ref', 'B1']
    else:
        lo, hi = _lit(env['A1']), _lit(env['B1'])
    if case.get('computed') == 'gcd-lcm':
        lo = ['call', 'GCD', [['num', '4'], ['num', '6']]]
        hi = ['call', 'LCM', [['num', '2'], ['num', '3']]]
    elif case.get('computed') == 'match':
        lo = ['call', 'COUNT', [['num', '7']]]
        hi = ['call', 'MATCH', [['str', 'z'], ['arr', [[['str', 'x'], ['str', 'y'],
                                                        ['str', 'z'], ['str', 'w']]]],
                                ['num', '0']]]
    site = ['call', 'RANDBETWEEN', [lo, hi]]
    c = _lit(case['c'])
    w = case['wrapper']
    if w == 'plus':
        return ['bin', '+', site, c]
    if w == 'if':
        return ['call', 'IF', [['bin', '<', ['num', '1'], ['num', '2']], site, c]]
    if w == 'sum':
        return ['call', 'SUM', [c, site]]
    if w == 'neg':
        return ['un', '-', site]
    if w == 'times1':
        return ['bin', '*', ['num', '1'], site]
    if w == 'nested-arg':
        return ['call', 'MAX', [['call', 'MIN', [site, ['num', '9000000000000']]],
                                ['un', '-', ['num', '9000000000000']]]]
    return site


def _rb_unwrap(case, v):
    w = case['wrapper']
    if w in ('plus', 'sum'):
        return v - case['c']
    if w == 'neg':
        return -v
    return v


def check_rb_case(case, ctx):
    _install()
    import formulas
    P = formulas.Parser()
    t = _rb_tree(case)
    text = gf.Speller(random.Random(0)).spell(t)
    for way in case['ways']:
        ep0 = Epoch()
        try:
            fn = _obtain_function(P, text, way)
            order = [k.upper() for k in fn.inputs]
        except Exception as ex:
            ctx.violation('rb:compile-raised:%s' % type(ex).__name__, {
                'case': case, 'formula': text, 'observed': repr(ex)[:150],
                'accepted': ['a function']})
            continue
        ep0.close()
        ctx.case((text, way, case['envs']))
        seen, prim = [], 0
        nb = len(vd.BOUNDARY)
        envs = case['envs'] + [case['envs'][j % len(case['envs'])] for j in range(nb)]
        for e, env in enumerate(envs):
            hostile = e >= len(case['envs'])
            w = {'case': dict(case, ways=[way]), 'formula': text, 'way': way,
                 'epoch': e, 'arguments': env}
            ep = Epoch(hostile=[vd.BOUNDARY[e % nb]] if hostile else None)
            try:
                got = xl.canon(xl.scalar(fn(*[env[k] for k in order])))
            except Exception as ex:
                got = ('foreign', 'raised ' + type(ex).__name__)
            ep.close()
            prim += ep.k1 - ep.k0
            if hostile:
                w['generator_returned'] = repr(vd.BOUNDARY[e % nb])
                ctx.count('monitor.rb-boundary-epochs')
            lo, hi = math.ceil(env['A1']), math.floor(env['B1'])
            ctx.count('monitor.rb-epochs')
            if lo > hi:
                if got != xl.c_err('#NUM!'):
                    ctx.violation('rb:empty-interval:%s' % wbrun._cls(got), dict(
                        w, observed=xl.show(got), accepted=['#NUM!']))
                continue
            if got[0] != 'num':
                ctx.violation('rb:not-a-number:%s' % wbrun._cls(got), dict(
                    w, observed=xl.show(got),
                    accepted=['an integer in [%d, %d]' % (lo, hi)]))
                continue
            v = _rb_unwrap(case, got[1])
            if v != math.floor(v):
                ctx.violation('rb:not-integer:%s' % case['wrapper'], dict(
                    w, observed=xl.show(got),
                    accepted=['an integer in [%d, %d]' % (lo, hi)]))
            elif not lo <= v <= hi:
                ctx.violation('rb:out-of-bounds:%s%s' % (
                    'byref' if case['byref'] else 'literal',
                    ':boundary-draw' if hostile else ''), dict(
                    w, observed=xl.show(got),
                    accepted=['an integer in [%d, %d]' % (lo, hi)]))
            else:
                ctx.count('fresh.rb.within-bounds')
            if not hostile:
                seen.append(v)
        if case['wide'] and len(seen) >= 5 and len(set(seen)) == 1:
            ctx.violation('frozen:rb:%s:%s' % (
                'byref' if case['byref'] else 'literal', way), {
                'case': dict(case, ways=[way]), 'formula': text, 'way': way,
                'observed': '%r in all %d epochs, %d primitive draws' % (
                    seen[0], len(seen), prim),
                'accepted': ['a fresh draw per call']})
        elif case['wide'] and len(seen) >= 5:
            ctx.count('prim.RANDBETWEEN.%s' % way)
            ctx.count('fresh.rb.varies')
        if prim:
            ctx.count('fresh.rb.primitive-seen')


# -- RAND at the edges of the generator's range ----------------------------------------

EDGE_FORMS = ('id', 'times1', 'plus0', 'if', 'sum', 'cell')


def make_edge_case(rng, i):
    return {'kind': 'edge', 'form': EDGE_FORMS[i % len(EDGE_FORMS)],
            'way': FWAYS[(i // len(EDGE_FORMS)) % len(FWAYS)]}


def check_edge_case(case, ctx):
    """RAND lies in [0, 1) for every value the underlying generator may
    return, in particular its largest and smallest ones."""
    _install()
    import formulas
    P = formulas.Parser()
    R = ['call', 'RAND', []]
    form = case['form']
    t = {'id': R, 'times1': ['bin', '*', R, ['num', '1']],
         'plus0': ['bin', '+', R, ['num', '0']],
         'if': ['call', 'IF', [['bool', True], R, ['num', '5']]],
         'sum': ['call', 'SUM', [R]], 'cell': R}[form]
    text = gf.Speller(random.Random(0)).spell(t)
    if form == 'cell':
        m = formulas.ExcelModel().from_dict({
            "'[b.xlsx]S'!A1": text, "'[b.xlsx]S'!B1": "='[b.xlsx]S'!A1"})
        if case['way'] == 'deepcopy':
            m = copy.deepcopy(m)

        def call():
            sol = m.calculate()
            a = xl.canon(xl.scalar(sol["'[b.xlsx]S'!A1"]))
            b = xl.canon(xl.scalar(sol["'[b.xlsx]S'!B1"]))
            return a if a == b else ('foreign', 'dependent differs %r %r' % (a, b))
    else:
        fn = _obtain_function(P, text, case['way'])

        def call():
            return xl.canon(xl.scalar(fn()))
    ctx.case((text, form, case['way']))
    for j, r in enumerate(vd.BOUNDARY):
        ep = Epoch(hostile=[r])
        try:
            got = call()
        except Exception as ex:
            got = ('foreign', 'raised ' + type(ex).__name__)
        ep.close()
        ctx.count('monitor.rand-edge-epochs')
        if ep.k1 == ep.k0:
            ctx.count('edge.no-primitive-call')
            continue
        if got[0] != 'num' or not 0.0 <= got[1] < 1.0:
            ctx.violation('rand-out-of-range:edge:%s' % form, {
                'case': case, 'formula': text, 'way': case['way'],
                'generator_returned': repr(r), 'observed': xl.show(got)
                if got[0] != 'num' else repr(got[1]),
                'accepted': ['a number in [0, 1) (the generator returned %r)' % r]})
        else:
            ctx.count('edge.in-range')


# -- workbook cases ----------------------------------------------------------------

def _vol_tree(rng, n=None):
    """(tree in workbook format, decoder spec)"""
    R = ['call', 'RAND', []]
    k = rng.choice(('RAND', 'RAND', 'RANDab', 'NOW', 'TODAY', 'RB', 'RBwide',
                    'IFRAND', 'SUMRAND', 'NOW'))
    if n == 0:
        k = rng.choice(('RAND', 'RANDab', 'IFRAND', 'SUMRAND'))
    elif n == 1:
        k = 'NOW'
    elif n == 2:
        k = 'TODAY'
    elif n == 3:
        k = 'RBwide'
    if k == 'RAND':
        return R, ['RAND', 1.0, 0.0]
    if k == 'RANDab':
        a, b = float(rng.choice((2, 4, 8))), float(rng.randint(-3, 5))
        return ['bin', '+', ['bin', '*', R, ['lit', a]], ['lit', b]], ['RAND', a, b]
    if k == 'NOW':
        c = float(rng.randint(0, 3))
        return ['bin', '+', ['call', 'NOW', []], ['lit', c]], ['NOW', c]
    if k == 'TODAY':
        c = float(rng.randint(0, 3))
        return ['bin', '-', ['call', 'TODAY', []], ['lit', c]], ['TODAY', -c]
    if k == 'RB':
        lo = float(rng.randint(-3, 3))
        hi = lo + rng.randint(0, 6)
        return ['call', 'RANDBETWEEN', [['lit', lo], ['lit', hi]]], ['RB', lo, hi]
    if k == 'RBwide':
        return ['call', 'RANDBETWEEN', [['lit', 1.0], ['lit', 1e9]]], ['RB', 1.0, 1e9]
    if k == 'IFRAND':
        return ['call', 'IF', [['bin', '>', R, ['lit', 2.0]], ['lit', 7.0], R]], \
            ['RAND', 1.0, 0.0]
    c = float(rng.randint(1, 5))
    return ['call', 'SUM', [R, ['lit', c]]], ['RAND', 1.0, c]


def _has_text_op(t):
    if not isinstance(t, list) or not t:
        return False
    if t[0] == 'bin':
        return t[1] == '&' or _has_text_op(t[2]) or _has_text_op(t[3])
    if t[0] == 'call':
        return t[1] in ('CONCATENATE',) or any(_has_text_op(a) for a in t[2])
    return False


def make_workbook_case(seed, i):
    rng = random.Random('fvmon/C13/%s/wb/%s' % (seed, i))
    for _ in range(20):
        desc = gw.gen(rng, value_names=False)
        consts = [k for k in wbrun.constant_cells(desc)
                  if isinstance(_cell(desc, k)['v'], float)]
        rng.shuffle(consts)
        chosen = []
        for k in consts:
            if len(wbrun.downstream(desc, [k])) > 1:
                chosen.append(k)
            if len(chosen) >= rng.choice((3, 3, 4)):
                break
        if len(chosen) >= 3:
            break
    else:
        return None
    vols = []
    for n, k in enumerate(chosen):
        tree, spec = _vol_tree(rng, (0, 1 + (i // len(MWAYS)) % 2, 3)[n] if n < 3 else None)
        cell = _cell(desc, k)
        cell.pop('v')
        cell['f'] = tree
        vols.append([list(k), spec])
    consts = [k for k in wbrun.constant_cells(desc)
              if isinstance(_cell(desc, k)['v'], float)]
    inputs = [list(k) for k in rng.sample(consts, min(len(consts), rng.randint(0, 2)))]
    way = MWAYS[i % len(MWAYS)]
    # a defined name for a volatile cell, used by a fresh dependent
    vb, vs, vc, vr = chosen[0]
    desc['names']['VOLNAME'] = ['cell', vb, vs, vc, vr]
    sheet = desc['books'][vb]['sheets'][vs]['cells']
    sheet['M1'] = {'f': ['bin', '*', ['name', 'VOLNAME'], ['lit', 2.0]]}
    sheet['M2'] = {'f': ['bin', '-', ['cell', vb, vs, 13, 1], ['name', 'VOLNAME']]}
    down = sorted(wbrun.downstream(desc, chosen) - set(chosen))
    down = [k for k in down if k in {tuple(x) for x in wbrun.formula_cells(desc)}]
    restrict = [list(k) for k in rng.sample(down, min(len(down), 3))]
    return {'kind': 'workbook', 'id': i, 'desc': desc, 'vols': vols, 'way': way,
            'inputs': inputs, 'restrict': restrict,
            'args': [[float(rng.randint(-5, 20)) for _ in inputs] for _ in range(4)],
            'epochs': 4, 'tick': 1 if i % 4 == 0 else 0}


def _cell(desc, key):
    b, s, c, r = key
    return desc['books'][b]['sheets'][s]['cells']['%s%d' % (gw.col_name(c), r)]


def _obtain_model(case):
    import formulas
    import dill
    desc, way = case['desc'], case['way']
    if way == 'xlsx':
        import os
        from .. import worker
        m, _ = wbrun.load_xlsx(desc, os.path.join(worker.scratch_dir(), 'c13'))
    else:
        m = wbrun.load_dict(desc)
    how = way.split('+')[0]        # 'deepcopy+compile': copy the model, then compile
    if how == 'json':
        m.calculate()
        m = formulas.ExcelModel().from_dict(json.loads(json.dumps(m.to_dict())))
    elif how == 'deepcopy':
        m.calculate()
        m = copy.deepcopy(m)
    elif how == 'dill':
        m.calculate()
        m = dill.loads(dill.dumps(m))
    return m


def check_workbook_case(case, ctx):
    _install()
    import dill
    desc, way = case['desc'], case['way']
    vols = [(tuple(k), spec) for k, spec in case['vols']]
    vol_keys = [k for k, _ in vols]
    # cells where a volatile value is rendered as text are C02's business
    textual = {k for k in wbrun.downstream(desc, vol_keys)
               if _has_text_op((_owner_cell(desc, k) or {}).get('f'))}
    skip = wbrun.downstream(desc, textual) if textual else set()
    ep0 = Epoch()
    try:
        m = _obtain_model(case)
        func = None
        if 'compile' in way:
            down = sorted(wbrun.downstream(desc, vol_keys) - set(vol_keys))
            down = [k for k in down if k in {tuple(x) for x in wbrun.formula_cells(desc)}]
            out_keys = vol_keys + down[:6]
            in_keys = [tuple(k) for k in case['inputs']
                       if tuple(k) not in out_keys]
            in_ids = [gw.key_of(desc, *k) for k in in_keys]
            out_ids = [wbrun.node_key(desc, k) for k in out_keys]
            if any(n not in m.dsp.nodes for n in in_ids + out_ids):
                ctx.count('skipped.node-absent')
                ep0.close()
                return
            func = m.compile(in_ids, out_ids)
            if way == 'compile-deepcopy':
                func = copy.deepcopy(func)
            elif way == 'compile-dill':
                func = dill.loads(dill.dumps(func))
    except Exception as ex:
        ep0.close()
        ctx.violation('obtain-raised:%s:%s' % (way, type(ex).__name__), {
            'case': case, 'observed': '%s: %s' % (type(ex).__name__, str(ex)[:200]),
            'accepted': ['an executable model']})
        return
    ep0.close()
    ctx.case((case['id'], way, gw.to_dict(desc)))
    hist = {k: [] for k in vol_keys}
    for e in range(case['epochs']):
        w = {'case': case, 'way': way, 'epoch': e}
        ep = Epoch(tick=case.get('tick', 0) if e % 2 else 0)
        ov = {}
        try:
            if func is not None:
                args = case['args'][e % len(case['args'])][:len(in_ids)]
                res = func(*args)
                observed = wbrun.observed_outputs(desc, res, out_keys, out_ids)
                ov = {k: xl.canon(a) for k, a in zip(in_keys, args)}
                judged = set(out_keys)
            elif e == 2 and case.get('restrict'):
                # restricted outputs: only the requested nodes are returned
                r_keys = vol_keys + [tuple(k) for k in case['restrict']]
                r_ids = [wbrun.node_key(desc, k) for k in r_keys]
                if all(n in m.dsp.nodes for n in r_ids):
                    sol = m.calculate(outputs=r_ids)
                    observed = wbrun.observed_outputs(desc, sol, r_keys, r_ids)
                    judged = set(r_keys)
                    ctx.count('monitor.restricted-output-epochs')
                else:
                    sol = m.calculate()
                    observed = wbrun.solution_cells(desc, sol)
                    judged = None
            else:
                sol = m.calculate()
                observed = wbrun.solution_cells(desc, sol)
                judged = None
        except Exception as ex:
            ep.close()
            ctx.violation('calculate-raised:%s:%s' % (way, type(ex).__name__), dict(
                w, observed='%s: %s' % (type(ex).__name__, str(ex)[:200]),
                accepted=['a solution']))
            return
        ep.close()
        ctx.count('monitor.workbook-epochs')
        # 1. every volatile cell decodes to a primitive of this epoch
        for key, spec in vols:
            o = observed.get(key, ('missing',))
            cellname = gw.key_of(desc, *key)
            ww = dict(w, cell=cellname, volatile=spec, observed=xl.show(o),
                      formula=gw.formula_text(desc, _cell(desc, key)['f'], None, True))
            if o[0] != 'num':
                ctx.violation('volatile-cell:%s:%s' % (spec[0], wbrun._cls(o)), dict(
                    ww, accepted=['a number']))
                continue
            hist[key].append(o[1])
            ov[key] = o
            if spec[0] == 'RAND':
                r = (o[1] - spec[2]) / spec[1]
                fresh, k = ep.fresh_rand(r)
                if not 0 <= r < 1:
                    ctx.violation('rand-out-of-range:%s' % way, dict(
                        ww, accepted=['RAND in [0, 1)']))
                elif fresh:
                    ctx.count('prim.RAND.%s' % way)
                elif k is not None:
                    ctx.violation('frozen:workbook:RAND:%s' % way, dict(
                        ww, accepted=['a draw of this epoch (calls %d..%d), got '
                                      'call %d' % (ep.k0, ep.k1 - 1, k)]))
                else:
                    ctx.count('workbook.rand-undecodable')
                    ctx.see('undecodable', '%s %r' % (spec, o[1]))
            elif spec[0] in ('NOW', 'TODAY'):
                v = o[1] - spec[1]
                cands = ep.now_values() if spec[0] == 'NOW' else ep.today_values()
                if _near(v, cands):
                    ctx.count('prim.%s.%s' % (spec[0], way))
                else:
                    ctx.violation('frozen:workbook:%s:%s' % (spec[0], way), dict(
                        ww, accepted=['serial of the clock of this epoch: %s' % (
                            cands[:3],)]))
            else:
                lo, hi = spec[1], spec[2]
                if o[1] != math.floor(o[1]) or not lo <= o[1] <= hi:
                    ctx.violation('rb:workbook:%s' % (
                        'not-integer' if o[1] != math.floor(o[1]) else 'out-of-bounds'),
                        dict(ww, accepted=['an integer in [%d, %d]' % (lo, hi)]))
                else:
                    ctx.count('fresh.rb.within-bounds')
        # 2. every other cell is consistent with those single values
        obs = observed if judged is None else dict(observed)
        sk = set(skip)
        if judged is not None:
            from ..ref import workbook as rw
            ev = rw.Evaluator(desc)
            sk |= {k for k in list(ev.cells) + list(ev.owner) if k not in judged}
        n = wbrun.compare_with_reference(
            desc, obs, ctx, 'inconsistent:%s' % way, w, overrides=ov, skip=sk)
        ctx.count('monitor.consistency-cells', n)
    for key, spec in vols:
        if spec[0] == 'RB' and spec[2] - spec[1] >= 1e6 and len(hist[key]) >= 4:
            if len(set(hist[key])) == 1:
                ctx.violation('frozen:workbook:RANDBETWEEN:%s' % way, {
                    'case': case, 'way': way, 'cell': gw.key_of(desc, *key),
                    'observed': '%r in all %d epochs' % (hist[key][0], len(hist[key])),
                    'accepted': ['a fresh draw per calculation']})
            else:
                ctx.count('prim.RANDBETWEEN.%s' % way)


def _owner_cell(desc, key):
    try:
        return _cell(desc, key)
    except KeyError:
        return None


# -- driver ------------------------------------------------------------------------

def plan(tier, seed):
    q = tier == 'quick'
    specs = []
    nf, per = (480, 40) if q else (6400, 400)
    for lo in range(0, nf, per):
        specs.append({'kind': 'formulas', 'lo': lo, 'hi': lo + per})
    nr, per = (168, 56) if q else (1680, 280)
    for lo in range(0, nr, per):
        specs.append({'kind': 'rb', 'lo': lo, 'hi': lo + per})
    specs.append({'kind': 'edge', 'lo': 0, 'hi': 24})
    nw, per = (110, 10) if q else (1320, 44)
    for lo in range(0, nw, per):
        specs.append({'kind': 'workbooks', 'lo': lo, 'hi': lo + per})
    return specs


def check_case(case, ctx):
    {'formula': check_formula_case, 'rb': check_rb_case, 'edge': check_edge_case,
     'workbook': check_workbook_case}[case['kind']](case, ctx)


def run(spec, ctx):
    _install()
    case = None
    for i in range(spec['lo'], spec['hi']):
        if spec['kind'] == 'workbooks':
            case = make_workbook_case(spec['seed'], i)
            if case is None:
                continue
            ctx.open_case({'kind': 'workbook', 'id': i})
            check_workbook_case(case, ctx)
        else:
            rng = random.Random('fvmon/C13/%s/%s/%s' % (spec['seed'], spec['kind'], i))
            case = {'formulas': make_formula_case, 'rb': make_rb_case,
                    'edge': make_edge_case}[spec['kind']](rng, i)
            check_case(case, ctx)
    if case is not None:
        if case['kind'] == 'workbook':
            ctx.sample({'way': case['way'], 'volatile cells': case['vols']})
        elif case['kind'] == 'edge':
            ctx.sample({'form': case['form'], 'way': case['way'],
                        'generator values': [repr(x) for x in vd.BOUNDARY]})
        elif case['kind'] == 'formula':
            ctx.sample({'formula': gf.render(case['tree']), 'ways': case['ways']})
        else:
            ctx.sample({'formula': gf.render(_rb_tree(case)), 'ways': case['ways']})
    s = vd.state()
    ctx.count('probe.rand-calls', s['k'])
    ctx.count('probe.clock-reads', s['reads'])


def finalize(agg, tier):
    c, inc = agg['counters'], []
    floors = [('monitor.formula-epochs', 1500), ('monitor.rb-epochs', 1200),
              ('monitor.workbook-epochs', 250), ('monitor.consistency-cells', 2000),
              ('probe.rand-calls', 1000), ('probe.clock-reads', 500),
              ('fresh.formula.primitive-seen', 800), ('fresh.rb.varies', 50),
              ('edge.in-range', 150), ('monitor.rb-boundary-epochs', 1000),
              ('monitor.restricted-output-epochs', 20)]
    for k, floor in floors:
        if c.get(k, 0) < floor:
            inc.append('monitor %s saw %d events (< %d)' % (k, c.get(k, 0), floor))
    for fn in ('RAND', 'NOW', 'TODAY'):
        for way in FWAYS + MWAYS:
            if c.get('prim.%s.%s' % (fn, way), 0) < (3 if way in FWAYS else 1):
                inc.append('no fresh %s observation through %r (%d)' % (
                    fn, way, c.get('prim.%s.%s' % (fn, way), 0)))
    for way in FWAYS + MWAYS:
        if c.get('prim.RANDBETWEEN.%s' % way, 0) < (3 if way in FWAYS else 1):
            inc.append('no fresh RANDBETWEEN observation through %r' % way)
    if c.get('formula.unexplained', 0) * 20 > c.get('monitor.formula-epochs', 1):
        inc.append('%d of %d formula epochs were explained by no primitive at all' % (
            c.get('formula.unexplained', 0), c.get('monitor.formula-epochs', 0)))
    return {'inconclusive': inc}
