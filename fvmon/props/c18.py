"""C18 - the parser is total: it returns a formula or its syntax error, only.

Exception-type and step-budget monitor on Parser.ast over token soups,
printable/control noise and single-edit mutations of valid formulas; strings
that are invalid *by construction* (one of the five named classes) must be
rejected; numeric literals in every form Excel writes must be accepted with
their value.
"""
from .. import xl, steps, bootstrap
from ..gen import formulas as gf

ID = 'C18'
LEVEL = 'exploration'
RULE = ('a case is one input string; classes: token soups, printable/control '
        'noise, single-edit (delete/insert/replace a token) mutants of valid '
        'generated formulas, strings invalid by construction (unbalanced '
        '()/{}, missing operand, adjacent operands, ragged array, foreign '
        'character), numeric literals (leading zeros, decimals, exponents, '
        'long digit strings) alone and inside expressions; distinct = '
        'distinct string; non-trivial = parser was invoked on it under the '
        'step monitor')
ASSUMPTIONS = [
    'termination is decided as bounded progress: PY_START events per parse '
    'must stay below 20000 + 4000*len(text); wall-clock decides nothing',
    'the rejection clause is judged only on strings invalid by construction; '
    'arbitrary mutants are subject to the exception-type and budget monitors',
    'exponent literals are generated in the form Excel writes (E+dd / E-dd) '
    'and within the double range',
]

VOCAB = ['1', '2.5', '007', '.5', '1E+3', '"a"', '""', '"x""y"', 'A1', '$B$2',
         'A1:B2', 'Sheet1!A1', "'My S'!A1", 'R1C1', 'R[1]C[-1]', 'name', 'x.y',
         'TRUE', 'false', '#N/A', '#REF!', '#DIV/0!', 'SUM(', 'IF(', 'PI()',
         'foo(', '(', ')', '{', '}', ',', ';', ':', ' ', '  ', '+', '-', '*',
         '/', '^', '&', '%', '=', '<>', '<', '>', '<=', '>=', '@', '!', '$',
         '.', '"', "'", '#', '[', ']', 'E', '1:1', 'A:A', '_xlfn.', 'INDIRECT("A1")',
         'A1#', '\n', '\t', 'XFD1', 'A1048576', 'ANCHORARRAY(', 'SINGLE(']
FOREIGN = ['§', '?', '|', '~', '`', '¤', '\\x01', '\\x7f']


def _tokens(text):
    """Split a *generated* formula into rough tokens (for mutation)."""
    import re
    return re.findall(r'"(?:[^"]|"")*"|[A-Za-z_][\w\.]*\(?|\d+(?:\.\d+)?(?:E[+-]\d+)?'
                      r'|<=|>=|<>|\s+|.', text, re.S)


class Mon:
    def __init__(self, ctx):
        import formulas
        from formulas.errors import FormulaError
        self.ctx = ctx
        self.P = formulas.Parser()
        self.FE = FormulaError
        self.st = steps.make(bootstrap.REPO)

    def check(self, text, cls, expect=None, value=None):
        ctx = self.ctx
        case = {'kind': 'text', 'text': text, 'class': cls, 'expect': expect,
                'value': value}
        ctx.open_case(case)
        ctx.case(text)
        ctx.count('parse.' + cls.split(':')[0])
        limit = 20000 + 4000 * len(text)
        n, res, ex = self.st.run(lambda: self.P.ast(text), limit)
        ctx.maximum('steps_max', n)
        ctx.maximum('steps_per_char_max_x100', int(100 * n / max(1, len(text))))
        outcome = 'accepted'
        if ex is not None:
            if isinstance(ex, steps.StepBudgetExceeded):
                ctx.violation('steps:%s' % cls, {
                    'case': case, 'observed': '%d steps' % n,
                    'accepted': ['<= %d steps' % limit]})
                return 'budget'
            if isinstance(ex, self.FE):
                outcome = 'rejected'
                ctx.count('outcome.rejected')
            else:
                ctx.violation('escape:%s:%s' % (type(ex).__name__, cls.split(':')[0]), {
                    'case': case, 'observed': '%s: %s' % (
                        type(ex).__name__, str(ex)[:120]),
                    'accepted': ['FormulaError or a formula']})
                return 'escape'
        else:
            ctx.count('outcome.accepted')
        try:
            self.P.is_formula(text)
        except Exception as ex2:
            ctx.violation('is_formula-raised:%s' % type(ex2).__name__, {
                'case': case, 'observed': repr(ex2)[:100], 'accepted': ['no raise']})
        if expect == 'reject' and outcome == 'accepted':
            ctx.violation('accepted-invalid:%s' % cls, {
                'case': case, 'observed': 'parsed as %s' % _expr(res),
                'accepted': ['FormulaError']})
        elif expect == 'accept':
            if outcome != 'accepted':
                ctx.violation('%s-rejected:%s' % (
                    'literal' if value is not None else 'valid', cls), {
                    'case': case, 'observed': 'FormulaError',
                    'accepted': ['a formula' + (
                        ' with value %r' % value if value is not None else '')]})
            elif value is not None:
                try:
                    got = xl.canon(xl.scalar(res[1].compile()()))
                except Exception as ex3:
                    got = ('foreign', type(ex3).__name__)
                if not xl.same(got, xl.c_num(value), rel=1e-15):
                    ctx.violation('literal-value:%s' % cls, {
                        'case': case, 'observed': xl.show(got),
                        'accepted': [repr(float(value))]})
        return outcome


def _expr(res):
    try:
        return res[1][-1].get_expr
    except Exception:
        return '?'


def gen_literals(rng, n):
    out = []
    for _ in range(n):
        k = rng.randrange(8)
        ip = str(rng.randrange(0, 10 ** rng.randint(1, 6)))
        fp = ''.join(rng.choice('0123456789') for _ in range(rng.randint(1, 8)))
        if k == 0:
            lit = '0' * rng.randint(1, 3) + ip                      # 007
        elif k == 1:
            lit = '.' + fp                                           # .5
        elif k == 2:
            lit = ip + '.' + fp
        elif k == 3:
            lit = '0' * rng.randint(1, 2) + ip + '.' + fp            # 01.50
        elif k == 4:
            lit = '%s%s%s%02d' % (rng.choice((ip[:3], ip[:1] + '.' + fp)),
                                  rng.choice('Ee'), rng.choice('+-'),
                                  rng.randint(0, 99))                # 1.5E+05
        elif k == 5:
            lit = '%sE%s%d' % (ip[:2], rng.choice('+-'), rng.randint(0, 300))
        elif k == 6:
            lit = ''.join(rng.choice('123456789') for _ in range(rng.randint(16, 30)))
        else:
            lit = ip
        try:
            v = float(lit)
        except ValueError:
            continue
        if v == float('inf'):
            continue
        out.append((lit, v))
    return out


def gen_invalid(rng, valid):
    """Strings that are certainly invalid, by construction from a valid one."""
    k = rng.randrange(9)
    toks = _tokens(valid[1:])
    sig = [i for i, t in enumerate(toks) if not t.isspace()]
    a = rng.choice(('1', '2.5', '"s"', 'TRUE'))
    b = rng.choice(('3', '"t"', 'FALSE', '4.25'))
    if k == 0:
        return 'unbalanced', rng.choice((
            '=(' + valid[1:], '=%s)+(%s' % (a, b), '=(%s))+((%s)' % (a, b),
            '=SUM(%s))*((%s)' % (a, b), '=%s)&(%s' % (a, valid[1:]),
            # a brace closing parentheses and the other way round
            '=((%s}' % a, '={(%s})' % a, '={%s))' % a, '=SUM({%s,%s))' % (a, b),
            '=(%s,{%s)}' % (a, b),
            # a row separator outside braces
            '=SUM(SUM(%s;%s))' % (a, b), '=SUM(%s,(%s;%s))' % (a, b, a)))
    if k == 1:
        return 'unbalanced', valid + ')'
    if k == 2:
        return 'unbalanced', '=SUM(%s,{1,2}' % valid[1:]
    if k == 3:
        return 'unbalanced', '={1,2' + rng.choice(('', ';3,4'))
    if k == 4:
        op = rng.choice(('*', '/', '^', '&', '=', '<', '>', '<=', '>=', '<>'))
        return 'missing-operand', rng.choice((
            '=%s%s' % (valid[1:], op), '=%s%s' % (op, valid[1:]),
            '=(%s)%s%s%s' % (valid[1:], op, rng.choice(('*', '/', '^', '&')), a),
            '=SUM(%s%s)' % (a, op), '=%s+' % a, '=%s-' % a,
            # no left operand after an argument separator
            '=SUM(%s,%s%s)' % (a, op, b), '=IF(%s,%s%s,%s)' % (a, op, b, a),
            '={%s,%s%s}' % ('1', rng.choice('*/^&'), '2'), '=(%s,%s%s)' % (a, op, b),
            '=SUM(%s,%%)' % a, '=%s< =%s' % (a, b), '=%s < > %s' % (a, b), '=%s> =%s' % (a, b),
            # the range operator without its first operand
            '=:B2', '=SUM(:B2,%s)' % a, '=%s+:C3' % a, '=SUM($:$B$2)'))
    if k == 5:
        return 'adjacent-operands', rng.choice((
            '=%s %s' % (a, b), '=%s%s' % ('"s"', ' "t"'), '=(%s) %s' % (valid[1:], b),
            '=%s(%s)' % (a, b), '=SUM(%s %s)' % (a, b), '=%s %s+1' % (a, b),
            '=%s\t%s' % (a, b), '=A1 #N/A', '=A1 #VALUE!', '=SUM(A1:B2 #NULL!)',
            # an operand right after a closing parenthesis / brace, glued by a line feed
            '=SUM((%s)%s)' % (a, b), '=(%s)(%s)' % (a, b), '=SUM(SUM(%s)%s)' % (a, b),
            '=SUM(%s{%s})' % (a, b), '=(A1)B1', '={%s}%s' % (a, b), '=%s\n%s' % (a, b),
            '=SUM(A1:B2 INDEX(C1:D2,1,1),%s)' % a,
            # a constant followed by ( inside an argument list / an array
            '=SUM(%s(%s))' % (a, b), '=IF(%s(%s),3,4)' % (a, b), '={%s(%s)}' % ('1', '2'),
            '=SUM(1,%s(%s+1))' % (a, b),
            '=B2 #DIV/0!+1', '=A1 #n/a', '=%s #NUM!' % a))
    if k == 6:
        return 'ragged-array', rng.choice((
            '={1,2;3}', '={1;2,3}', '={1,2,3;4,5}', '=SUM({1,2;3,4,5})',
            '={"a";"b","c"}', '={1,2;3,4;5}'))
    if k == 7 and rng.random() < 0.4:
        # decimal digits of other scripts are no digits of the grammar
        return 'foreign-char', rng.choice((
            '=\u0663+1', '=1.\u0665', '=1E+\u0662', '=\uff11\uff12', '=SUM(\u0967,2)',
            '=A1\u0663', '=$A$\u0663', '=A\u0661:B2', '=R\u0662C1', '=%s+\u0669' % a,
            '=SUM(%s,\u06f5)' % b))
    if k == 7:
        ch = rng.choice(FOREIGN).encode().decode('unicode_escape')
        return 'foreign-char', rng.choice((
            '=%s%s%s' % (a, ch, b), '=%s%s' % (valid[1:], ch),
            '=%s(%s)%s' % (ch, valid[1:], ''), '=SUM(%s%s,%s)' % (a, ch, b)))
    return 'unbalanced', '=%s' % ')('.join((a, b))


ERRS = ('#N/A', '#REF!', '#DIV/0!', '#VALUE!', '#NUM!', '#NAME?', '#NULL!')
# characters that a case-insensitive match folds onto ASCII letters
FOLDS = {'s': '\u017f', 'S': '\u017f', 'k': '\u212a', 'K': '\u212a'}


def recase(rng, valid, folds=False):
    """The same formula with an error literal added and the case of letters
    outside string literals changed at random (Excel reads formulas ignoring
    the case); with folds, some letters are replaced by non-ASCII characters
    whose case folding is that letter."""
    text = '=%s%s%s' % (rng.choice(ERRS), rng.choice('+&=<'), valid[1:]) \
        if rng.random() < 0.6 else valid
    out, instr = [], False
    for ch in text:
        if ch == '"':
            instr = not instr
        elif not instr and ch.isalpha():
            r = rng.random()
            if folds and ch in FOLDS and r < 0.5:
                ch = FOLDS[ch]
            elif r < 0.5:
                ch = ch.swapcase()
        out.append(ch)
    return ''.join(out)


def mutate(rng, valid):
    toks = _tokens(valid[1:])
    if not toks:
        return valid
    i = rng.randrange(len(toks))
    k = rng.randrange(3)
    if k == 0:
        del toks[i]
    elif k == 1:
        toks.insert(i, rng.choice(VOCAB))
    else:
        toks[i] = rng.choice(VOCAB)
    return '=' + ''.join(toks)


def plan(tier, seed):
    n = 16 if tier == 'quick' else 64
    per = 9000 if tier == 'quick' else 40000
    return [{'kind': 'strings', 'count': per} for _ in range(n)]


def check_case(case, ctx):
    Mon(ctx).check(case['text'], case['class'], case.get('expect'),
                   case.get('value'))


def run(spec, ctx):
    rng = ctx.rng
    m = Mon(ctx)
    n = spec['count']
    sp = [gf.Speller(rng), gf.Speller(rng, ws=0.3, case=0.3, extra=0.2),
          gf.Speller(rng, full=True), gf.Speller(rng, guard_signs=False)]
    valids, accepted = [], []
    for i in range(n // 6):
        t = gf.rand_tree(rng, rng.randint(1, 4), p_call=0.25, p_arr=0.1)
        s = rng.choice(sp).spell(t)
        valids.append(s)
        out = m.check(s, 'valid')
        ctx.count('valid.' + out)
        if out == 'accepted':
            accepted.append(s)
    for i in range(n // 6):
        k = rng.randint(1, 12)
        s = rng.choice(('=', '=', '', '{=', ' =')) + ''.join(
            rng.choice(VOCAB) for _ in range(k))
        m.check(s, 'soup')
    for i in range(n // 8):
        k = rng.randint(0, 30)
        alphabet = rng.choice((
            ''.join(chr(c) for c in range(32, 127)),
            ''.join(chr(c) for c in range(0, 256)),
            '=+-*/^&<>(){},;:"\'!#$%. 0123456789ABCEFRTUabcefrtu',
            'é§Ω→😀=(1+"'))
        s = rng.choice(('=', '', '=')) + ''.join(rng.choice(alphabet) for _ in range(k))
        m.check(s, 'noise')
    for i in range(n // 3):
        m.check(mutate(rng, rng.choice(valids)), 'mutant')
    for i in range(n // 8):
        cls, s = gen_invalid(rng, rng.choice(valids))
        m.check(s, 'invalid:' + cls, expect='reject')
        ctx.see('invalid_classes', cls)
    # the array-formula spelling {=...}: same formula; trailing text invalid
    for i in range(n // 16):
        v = rng.choice(valids)
        w1, w2, w3 = (rng.choice(('', ' ', '  ')) for _ in range(3))
        arr = '%s{%s=%s%s}%s' % (w1, w2, v[1:], w3, w1)
        o1 = m.check(arr, 'valid-array-spelling')
        ctx.count('arrayspelling.' + o1)
        tail = rng.choice((')', '3', '$', '+', '(', '"x"', ' 1', ',', 'A1', '%'))
        m.check('{=%s}%s' % (v[1:], tail), 'invalid:trailing-after-brace',
                expect='reject')
        head = rng.choice(('1', 'x', '(', '"a"', '+'))
        m.check('%s{=%s}' % (head, v[1:]), 'invalid:leading-before-brace',
                expect='reject')
        err = rng.choice(ERRS)
        tail = rng.choice(('xyz', '+1', ' 2', '(1)', '!', 'A1'))
        if err == '#REF!' and tail == 'A1':
            tail = 'A1B'        # #REF!A1 is what Excel writes for a deleted sheet
        m.check(err + tail, 'invalid:trailing-after-error', expect='reject')
        m.check('=#REF!%s+1' % rng.choice(('A1', '$B$2', 'A1:C3')), 'valid-deleted-sheet',
                expect='accept')
        m.check(rng.choice((err, ' %s ' % err, err.lower())), 'valid-error-alone')
    # letter case: the same formulas in another case, error literals included
    for i in range(n // 12):
        v = rng.choice(accepted or valids)
        o = m.check(recase(rng, v), 'recased', expect='accept' if accepted else None)
        ctx.count('recased.' + o)
        m.check(recase(rng, v, folds=True), 'casefold')
    lits = gen_literals(rng, n // 10)
    for z in ('0', '00', '0.0', '0E+00', '0.0E+00', '00E-00', '0e+3', '000.000',
              '1E+00', '10E-01', '100', '1000000', '1E+308', '4.9E-324'):
        try:
            lits.append((z, float(z)))
        except ValueError:
            pass
    for lit, v in lits:
        m.check('=' + lit, 'literal', expect='accept', value=v)
        w = rng.randrange(4)
        if w == 0:
            m.check('=%s+1' % lit, 'literal:in-sum', expect='accept', value=v + 1)
        elif w == 1:
            m.check('=SUM(%s,1)' % lit, 'literal:in-call', expect='accept', value=v + 1)
        elif w == 2:
            m.check('=-%s' % lit, 'literal:signed', expect='accept', value=-v)
    ctx.sample({'valid': valids[0], 'mutant': mutate(rng, valids[0]),
                'invalid': gen_invalid(rng, valids[0]),
                'literal': lits[0] if lits else None})
    for s in ('=', '', '= ', '{=}', '{=1}', '=1', None):
        if s is None:
            continue
        m.check(s, 'tiny')


def finalize(agg, tier):
    c, inc = agg['counters'], []
    for k, floor in (('parse.valid', 9000), ('parse.soup', 9000),
                     ('parse.noise', 2000), ('parse.mutant', 6000),
                     ('parse.invalid', 2500), ('parse.literal', 1500),
                     ('valid.accepted', 2500), ('parse.recased', 1500),
                     ('parse.casefold', 1500)):
        if c.get(k, 0) < floor:
            inc.append('monitor %s saw %d events (< %d)' % (k, c.get(k, 0), floor))
    need = {'unbalanced', 'missing-operand', 'adjacent-operands',
            'ragged-array', 'foreign-char'}
    seen = set(agg['sets'].get('invalid_classes', ()))
    if need - seen:
        inc.append('invalid classes never generated: %s' % sorted(need - seen))
    return {'inconclusive': inc}
