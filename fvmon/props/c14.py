"""C14 - unresolvable functions and references degrade locally to error values.

Fault-injection monitor on twin workbooks.  A generated workbook (the twin)
is copied and 1-3 faults are planted at random positions of its dependency
graph: in place of a constant that formulas read, in an unpopulated cell that
ranges cover, or in a fresh cell; interception probes (IFERROR, IS...,
plain arithmetic) are attached to every fault cell.  Both
workbooks are loaded the same way and calculated; the monitor then checks

 1. no exception left loads / finish / complete / calculate;
 2. the fault cell holds the error the property prescribes for its kind;
 3. locality, differential: every cell of the twin that does not depend on a
    fault cell has exactly the twin's value;
 4. ordinary error values: every other cell (dependents, probes) equals the
    reference evaluation with the fault cells fixed to the observed errors -
    so IFERROR/IS... intercept them and arithmetic propagates them.

File faults (absent / empty / truncated / directory instead of a workbook,
absent sheet of a loadable workbook) exist only on the .xlsx path: a model
built from a dictionary has no files to miss, there such a reference is an
ordinary empty cell.  The library's own "Error in loading" log records are
captured as evidence that the fault was really exercised.
"""
import os
import copy
import random
import logging

from .. import xl, wbrun
from ..gen import workbooks as gw
from ..ref import workbook as rw

ID = 'C14'
LEVEL = 'exploration'
RULE = ('a case is (workbook description, set of 1-3 planted faults with their '
        'positions, load path); fault kinds: unknown function, _xlfn.-prefixed '
        'unknown function, undefined name, #REF! literal (both paths), absent '
        'sheet of a loadable workbook, absent / zero-byte / truncated / '
        'directory workbook file (xlsx path); positions: replaced constant '
        'with dependents, unpopulated cell inside referenced ranges, fresh '
        'cell, each with 5-7 interception probes; distinct = distinct '
        '(description, faults, path); non-trivial = both twins calculated and '
        'compared')
ASSUMPTIONS = [
    'on the dictionary path a reference to a sheet or workbook that has no '
    'cells in the dictionary is an ordinary empty cell, not a fault (nothing '
    'can be absent from a dictionary); file faults are injected on the xlsx '
    'path only',
    'dependents are judged with the reference vocabulary of C03 plus '
    'IFERROR / ISERROR / ISERR / ISNA / ISNUMBER / ISTEXT; a '
    'cell whose reference value is not certain (e.g. two different error '
    'kinds meeting in one aggregation) is not judged by clause 4, but still '
    'by clause 3 when it does not depend on a fault',
]

BOTH = ('unknown-fn', 'xlfn', 'xlfn-like-known', 'undefined-name', 'ref-literal',
        'ref-literal-arg', 'unknown-fn-nested', 'name-unknown-fn',
        'ref-literal-prefixed', 'ref-literal-operand', 'name-ref-literal-operand',
        'name-of-undefined-name')
ANY_ERROR = {'#REF!', '#VALUE!', '#NULL!', '#NAME?'}
FILES = ('missing-sheet', 'missing-sheet-range', 'missing-book', 'empty-file',
         'truncated-file', 'directory', 'garbage-file', 'name-missing-sheet',
         'link-index', 'name-formula-missing-sheet')
NAME_ONLY = {'#NAME?'}
REF_OR_NAME = {'#REF!', '#NAME?'}


def fault_tree(kind, rng, desc, b):
    """(tree, accepted error set)"""
    bk = desc['books'][b]['name']
    arg = ['lit', float(rng.randint(1, 9))]
    if kind == 'unknown-fn':
        nm = rng.choice(('FOOBAR', 'MYUDF', 'Not.A.Function', 'zzz_1', '\u00dcBER',
                         'Gr\u00f6\u00dfe', '\u0416\u0444'))
        return ['call', nm, [arg]], NAME_ONLY
    if kind == 'unknown-fn-nested':
        return ['bin', '+', ['call', 'SUM', [['call', 'NOSUCHFN', [arg, arg]], arg]],
                ['lit', 1.0]], NAME_ONLY
    if kind == 'xlfn':
        return ['call', '_xlfn.' + rng.choice(('FUTUREFN', 'LAMBDAX', 'QQQ.RT')),
                [arg]], NAME_ONLY
    if kind == 'xlfn-like-known':
        # spelled like implemented functions behind characters of the prefix
        nm = rng.choice(('XSUM', 'NMAX', 'LMIN', 'FSUM', '_SUM', 'XXMAX', '.COUNT'))
        return ['call', '_xlfn.' + nm, [arg, arg]], NAME_ONLY
    if kind == 'undefined-name':
        nm = rng.choice(('NoSuchName', 'undefined_1', 'Rate2', 'TRUE_FLAG', 'False_1'))
        if rng.random() < 0.5:
            return ['raw', nm, "'[%s]'!%s" % (bk, nm)], REF_OR_NAME
        return ['bin', '*', ['raw', nm, "'[%s]'!%s" % (bk, nm)], ['lit', 2.0]], REF_OR_NAME
    if kind == 'name-of-undefined-name':
        # a defined name that stands for a name nobody defines
        nm = 'ALIAS_%d' % (len(desc['names']) + 1)
        desc['names'][nm] = ['val', b, ['raw', 'No_Such_Target', "'[%s]'!No_Such_Target" % bk]]
        return ['bin', '+', ['name', nm], ['lit', 1.0]], REF_OR_NAME
    if kind == 'name-formula-missing-sheet':
        # the missing sheet sits inside a formula-valued name
        nm = 'ADJ_%d' % (len(desc['names']) + 1)
        desc['names'][nm] = ['val', b, ['bin', '*', [
            'raw', 'Gone!$A$1', "'[%s]Gone'!$A$1" % bk], ['lit', 2.0]]]
        return ['bin', '+', ['name', nm], ['lit', 1.0]], REF_OR_NAME
    if kind in ('name-unknown-fn', 'name-missing-sheet'):
        # the unresolvable item sits in the definition of a defined name
        nm = 'BROKEN%d' % (len(desc['names']) + 1)
        if kind == 'name-unknown-fn':
            desc['names'][nm] = ['val', b, ['call', 'NOTAFUNCTION', [arg]]]
            acc = NAME_ONLY
        else:
            desc['names'][nm] = ['val', b, ['raw', 'Gone!$A$1', "'[%s]Gone'!$A$1" % bk]]
            acc = REF_OR_NAME
        return ['bin', '+', ['name', nm], ['lit', 0.0]], acc
    if kind == 'link-index':
        # [1] is the first entry of the workbook's link table: a legacy .xls
        # that does not exist; [2] (used by the bystander cells) is healthy
        return ['raw', '[1]Sheet1!A1', None], REF_OR_NAME
    if kind == 'ref-literal':
        if rng.random() < 0.5:
            # what Excel writes for cells of a deleted sheet
            t = rng.choice(('#REF!A1', '#REF!$B$2', '#REF!A1:B2', '#ref!c3'))
            return ['bin', '+', ['raw', t, t], arg], {'#REF!'}
        return ['bin', '+', ['err', '#REF!'], arg], {'#REF!'}
    if kind == 'ref-literal-prefixed':
        # what Excel leaves behind when the referenced cells were deleted
        own = desc['books'][b]['sheets'][0]['name']
        q = own if own.isidentifier() else "'%s'" % own.replace("'", "''")
        text = rng.choice((
            '%s!#REF!' % q, "'My Sheet'!#REF!", "'[other.xlsx]My Sheet'!#REF!",
            "'[other.xlsx]Data'!#REF!", "'[%s]%s'!#REF!" % (
                bk, own.replace("'", "''")), "'[1]My Sheet'!#REF!", '[1]Sheet1!#REF!'))
        t = ['raw', text, text]
        return (t if rng.random() < 0.5 else ['bin', '+', t, arg]), {'#REF!'}
    if kind in ('ref-literal-operand', 'name-ref-literal-operand'):
        # #REF! as an operand of a reference operator (what is left of
        # (A1:A2,C1:C2) when the second area is deleted)
        own = desc['books'][b]['sheets'][0]['name']
        sid = gw.sheet_id(bk, own)
        full = rng.choice(('(%s!A1:A2,#REF!)', '%s!A1:A2 #REF!', '%s!A1:#REF!',
                           '(#REF!,%s!B1)')) % sid
        if kind == 'name-ref-literal-operand':
            nm = 'AREAS%d' % (len(desc['names']) + 1)
            desc['names'][nm] = ['val', b, ['raw', full, full]]
            return ['call', 'SUM', [['name', nm]]], ANY_ERROR
        return ['call', 'SUM', [['raw', full, full]]], ANY_ERROR
    if kind == 'ref-literal-arg' and rng.random() < 0.5:
        t = rng.choice(('#REF!A1:B2', '#REF!$A$1'))
        return ['call', 'SUM', [['raw', t, t], arg]], {'#REF!'}
    if kind == 'ref-literal-arg':
        return ['call', 'SUM', [['err', '#REF!'], arg]], {'#REF!'}
    if kind == 'missing-sheet':
        sh = rng.choice(('Gone', 'Zeta', 'Aaa', 'zz_top'))
        return ['raw', '%s!B2' % sh, "'[%s]%s'!B2" % (bk, sh)], REF_OR_NAME
    if kind == 'missing-sheet-range':
        sh = rng.choice(('No Such', 'Zeta 2', 'A b'))
        return ['call', 'SUM', [['raw', "'%s'!A1:B2" % sh, "'[%s]%s'!A1:B2" % (bk, sh)]]], \
            REF_OR_NAME
    f = {'missing-book': 'nofile.xlsx', 'empty-file': 'empty.xlsx',
         'truncated-file': 'trunc.xlsx', 'directory': 'dir.xlsx',
         'garbage-file': 'garbage.xlsx'}[kind]
    ref = "'[%s]S'!%s" % (f, rng.choice(('A1', 'C3', 'A1:A2')))
    t = ['raw', ref, ref]
    if ':' in ref:
        t = ['call', 'SUM', [t]]
    return t, REF_OR_NAME


def _free_cells(desc, b, s):
    ev = rw.Evaluator(desc)
    out = []
    for c in range(1, 13):
        for r in range(1, 11):
            if (b, s, c, r) not in ev.cells and (b, s, c, r) not in ev.owner:
                out.append((c, r))
    return out


def make_case(seed, i, path=None):
    rng = random.Random('fvmon/C14/%s/%s' % (seed, i))
    base = gw.gen(rng)
    path = path or ('xlsx' if i % 2 == 0 else 'dict')
    kinds = list(BOTH) + (list(FILES) if path == 'xlsx' else [])
    if path == 'xlsx':
        # every book has a link table [1] legacy.xls (absent), [2] linked.xlsx
        # and two healthy bystanders reading through [2]
        base['links'] = {}
        for b, bk in enumerate(base['books']):
            base['links'][str(b)] = [['legacy.xls', ['Sheet1']], ['linked.xlsx', ['L']]]
            cells = bk['sheets'][0]['cells']
            cells['L11'] = {'f': ['bin', '+', ['raw', '[2]L!A1', None], ['lit', 1.0]]}
            cells['L12'] = {'f': ['call', 'SUM', [['raw', '[2]L!A1:A2', None]]]}
    else:
        kinds = [k for k in kinds if k != 'link-index']
    n = rng.choice((1, 1, 2, 3))
    chosen = [kinds[(i // 2 + j * 5) % len(kinds)] if j == 0 else rng.choice(kinds)
              for j in range(n)]
    desc = copy.deepcopy(base)
    faults = []
    consts = [k for k in wbrun.constant_cells(desc)]
    rng.shuffle(consts)
    for kind in chosen:
        where = rng.choice(('constant', 'constant', 'free-in-zone', 'fresh'))
        key = None
        if where == 'constant':
            for k in consts:
                if len(wbrun.downstream(desc, [k])) > 1 and \
                        all(tuple(f['cell']) != k for f in faults):
                    key = k
                    break
        if key is None:
            b = rng.randrange(len(desc['books']))
            s = rng.randrange(len(desc['books'][b]['sheets']))
            free = _free_cells(desc, b, s)
            if where == 'free-in-zone':
                free = [x for x in free if x[0] <= 3 and x[1] <= gw.ROWS] or free
            else:
                free = [x for x in free if x[0] >= 9] or free
            c, r = rng.choice(free)
            key = (b, s, c, r)
        tree, accepted = fault_tree(kind, rng, desc, key[0])
        cells = desc['books'][key[0]]['sheets'][key[1]]['cells']
        cells['%s%d' % (gw.col_name(key[2]), key[3])] = {'f': tree}
        faults.append({'kind': kind, 'cell': list(key), 'accepted': sorted(accepted),
                       'where': where})
        # interception probes in fresh cells of the same sheet
        F = ['cell'] + list(key)
        probes = [['bin', '+', F, ['lit', 1.0]],
                  ['call', 'IFERROR', [F, ['lit', 99.0]]],
                  ['call', 'ISERROR', [F]],
                  ['call', 'IF', [['call', 'ISERROR', [F]], ['lit', 'broken'], ['lit', 'fine']]],
                  ['call', 'ISNA', [F]], ['call', 'ISERR', [F]],
                  ['call', 'IFERROR', [['bin', '*', F, ['lit', 2.0]], ['lit', 'caught']]],
                  ['call', 'ISNUMBER', [F]]]
        rng.shuffle(probes)
        free = [x for x in _free_cells(desc, key[0], key[1]) if x[0] >= 9]
        for p, (c, r) in zip(probes[:rng.randint(5, 7)], rng.sample(free, min(len(free), 7))):
            cells['%s%d' % (gw.col_name(c), r)] = {'f': p}
    lazy = path == 'xlsx' and i % 6 == 2
    if lazy and len(desc['books']) > 1:
        # a fault behind a formula-valued name of a book that is only pulled in:
        # the first book reads the fault cell, nothing else loads that book
        bb = len(desc['books']) - 1
        tree, accepted = fault_tree('name-formula-missing-sheet', rng, desc, bb)
        desc['books'][bb]['sheets'][0]['cells']['M15'] = {'f': tree}
        faults.append({'kind': 'name-formula-missing-sheet', 'cell': [bb, 0, 13, 15],
                       'accepted': sorted(accepted), 'where': 'pulled-in-book'})
        # (rows 13+ are outside every generated whole-row reference)
        desc['books'][0]['sheets'][0]['cells']['M13'] = {
            'f': ['call', 'IFERROR', [['cell', bb, 0, 13, 15], ['lit', 77.0]]]}
        desc['books'][0]['sheets'][0]['cells']['M14'] = {
            'f': ['bin', '+', ['cell', bb, 0, 13, 15], ['lit', 0.0]]}
    # two different undefined names in one formula, each intercepted on its own
    bk0 = desc['books'][0]['name']
    na = ['raw', 'No_Such_A', "'[%s]'!No_Such_A" % bk0]
    nb = ['raw', 'No_Such_B', "'[%s]'!No_Such_B" % bk0]
    c0 = desc['books'][0]['sheets'][0]['cells']
    c0['L13'] = {'f': ['bin', '+', ['call', 'IFERROR', [na, ['lit', 10.0]]],
                       ['call', 'IFERROR', [nb, ['lit', 20.0]]]]}
    c0['L14'] = {'f': ['bin', '+', ['call', 'ISERROR', [nb]], ['call', 'ISERROR', [na]]]}
    return {'kind': 'twin', 'id': i, 'path': path, 'base': base, 'desc': desc,
            'lazy': lazy,
            'faults': faults, 'expect': [[[0, 0, 12, 13], 30.0], [[0, 0, 12, 14], 2.0]]}


class LogTap(logging.Handler):
    def __init__(self):
        super().__init__()
        self.records = []

    def emit(self, record):
        try:
            self.records.append(record.getMessage()[:200])
        except Exception:
            self.records.append('unformattable')


def _load(desc, path, tag, stage, lazy=False):
    import formulas
    if path == 'dict':
        stage[0] = 'from_dict'
        m = formulas.ExcelModel().from_dict(gw.to_dict(desc))
        if any(n.startswith('ALIAS_') for n in desc.get('names', {})):
            # a name that stands for an undefined name is resolved by the
            # completion step (from_dict alone does not complete a model)
            stage[0] = 'finish (complete)'
            m.finish()
    else:
        import shutil
        from .. import worker
        d = os.path.join(worker.scratch_dir(), 'c14', tag)
        shutil.rmtree(d, ignore_errors=True)
        os.makedirs(d)
        paths = gw.write_xlsx(desc, d)
        open(os.path.join(d, 'empty.xlsx'), 'w').close()
        with open(paths[0], 'rb') as f:
            head = f.read(300)
        with open(os.path.join(d, 'trunc.xlsx'), 'wb') as f:
            f.write(head)
        with open(os.path.join(d, 'garbage.xlsx'), 'w') as f:
            f.write('this is not a workbook\n' * 20)
        os.makedirs(os.path.join(d, 'dir.xlsx'))
        import openpyxl
        lw = openpyxl.Workbook()
        lw.active.title = 'L'
        lw.active['A1'], lw.active['A2'] = 42.0, 7.0
        lw.create_sheet('Sheet1')['A1'] = 999.0    # what [1] must never reach
        lw.save(os.path.join(d, 'linked.xlsx'))
        stage[0] = 'loads'
        # lazy: only the first book is loaded, the others are pulled in
        m = formulas.ExcelModel().loads(*(paths[:1] if lazy else paths))
        stage[0] = 'finish (complete)'
        m.finish()
    stage[0] = 'calculate'
    sol = m.calculate()
    return m, sol


def check_case(case, ctx):
    desc, base, path = case['desc'], case['base'], case['path']
    kinds = '+'.join(sorted({f['kind'] for f in case['faults']}))
    tap = LogTap()
    log = logging.getLogger('formulas')
    stage = ['']
    try:
        lazy = bool(case.get('lazy'))
        _, sol0 = _load(base, path, 'base', stage, lazy)
        obs0 = wbrun.solution_cells(base, sol0)
    except Exception as ex:
        ctx.count('twin-raised')        # not this property's business
        return
    log.addHandler(tap)
    old = log.level
    log.setLevel(logging.DEBUG)
    try:
        m, sol = _load(desc, path, 'faulty', stage, lazy)
    except Exception as ex:
        ctx.violation('raised:%s:%s:%s' % (stage[0], type(ex).__name__, kinds), {
            'case': case, 'stage': stage[0], 'faults': case['faults'],
            'observed': '%s: %s' % (type(ex).__name__, str(ex)[:200]),
            'accepted': ['a calculated model with error values in the affected cells']})
        return
    finally:
        log.removeHandler(tap)
        log.setLevel(old)
    ctx.case((case['id'], path, case['faults']))
    ctx.count('monitor.twins')
    ctx.count('evidence.library-log-records', len(tap.records))
    for rec in tap.records:
        for word in ('does not exist', 'No such file', 'not a zip', 'Is a directory',
                     'Bad magic', 'Truncated', 'EOF'):
            if word in rec:
                ctx.count('evidence.log:' + word)
    observed = wbrun.solution_cells(desc, sol)
    fault_keys = [tuple(f['cell']) for f in case['faults']]
    # 2. the fault cells themselves
    ov = {}
    for f in case['faults']:
        key = tuple(f['cell'])
        o = observed.get(key, ('missing',))
        if lazy and (o == ('missing',) or gw.key_of(desc, *key) not in m.cells):
            # not pulled in as a cell of its own (seen at most through a range
            # of the lazily loaded book, where it may be a blank filler node)
            ctx.count('lazy.fault-not-reached')
            ov[key] = xl.c_err('#REF!')
            continue
        ctx.count('fault.%s.%s' % (f['kind'], path))
        if lazy:
            ctx.count('lazy.fault-reached')
        if o[0] == 'err':
            ov[key] = o
        if o[0] != 'err' or o[1] not in f['accepted']:
            ctx.violation('fault-cell:%s:%s' % (f['kind'], wbrun._cls(o)), {
                'case': case, 'fault': f, 'cell': gw.key_of(desc, *key),
                'formula': gw.formula_text(desc, gw_cell(desc, key)['f'], None, True),
                'observed': xl.show(o), 'accepted': f['accepted']})
    # 3. locality against the twin
    tainted = wbrun.downstream(desc, fault_keys)
    n = 0
    for key, v0 in obs0.items():
        if key in tainted:
            continue
        o = observed.get(key, ('missing',))
        if lazy and ('missing',) in (o, v0):
            continue        # not pulled in by one of the twins
        n += 1
        if not xl.same(o, v0, rel=0):
            cell = gw_cell(base, key) or {}
            ctx.violation('nonlocal:%s:%s->%s:%s' % (
                wbrun._form(cell.get('f')) if 'f' in cell else (
                    'constant' if cell else 'array-member'),
                wbrun._cls(o), wbrun._cls(v0),
                '+'.join(sorted({f['kind'] for f in case['faults']} & set(FILES)))
                or 'no-file-fault'), {
                'case': case, 'faults': case['faults'], 'cell': gw.key_of(desc, *key),
                'formula': gw.formula_text(desc, cell['f'], None, True)
                if 'f' in cell else None,
                'observed': xl.show(o), 'accepted': [xl.show(v0) + ' (value in the '
                                                     'workbook without the faults)']})
    ctx.count('monitor.local-cells', n)
    # interception of two different unresolved names inside one formula
    for key, want in case.get('expect') or ():
        key = tuple(key)
        o = observed.get(key, ('missing',))
        ctx.count('monitor.two-names-cells')
        if o != xl.c_num(want):
            ctx.violation('two-undefined-names:%s->num' % wbrun._cls(o), {
                'case': case, 'cell': gw.key_of(desc, *key),
                'formula': gw.formula_text(desc, gw_cell(desc, key)['f'], (0, 0)),
                'observed': xl.show(o), 'accepted': [repr(want)]})
    if lazy and len(desc['books']) > 1:
        for addr, ok in (('M13', lambda o: o == xl.c_num(77.0)),
                         ('M14', lambda o: o[0] == 'err')):
            key = (0, 0) + gw.split_addr(addr)
            o = observed.get(key, ('missing',))
            ctx.count('monitor.lazy-name-formula-readers')
            if not ok(o):
                ctx.violation('lazy-reader:%s:%s' % (addr, wbrun._cls(o)), {
                    'case': case, 'cell': gw.key_of(desc, *key),
                    'formula': gw.formula_text(desc, gw_cell(desc, key)['f'], (0, 0)),
                    'observed': xl.show(o),
                    'accepted': ['77.0' if addr == 'M13' else 'an error value']})
    # the healthy bystanders that read through the link table
    for b, links in (desc.get('links') or {}).items():
        for addr, want in (('L11', 43.0), ('L12', 49.0)):
            key = (int(b), 0) + gw.split_addr(addr)
            if key in tainted:
                continue
            o = observed.get(key, ('missing',))
            if lazy and o == ('missing',):
                continue
            ctx.count('monitor.link-bystanders')
            if o != xl.c_num(want):
                ctx.violation('link-bystander:%s->num' % wbrun._cls(o), {
                    'case': case, 'cell': gw.key_of(desc, *key),
                    'formula': gw.formula_text(desc, gw_cell(desc, key)['f'], (key[0], 0)),
                    'link_table': links, 'observed': xl.show(o),
                    'accepted': [repr(want)]})
    # 4. dependents see ordinary error values
    if len(ov) == len(fault_keys) and not lazy:
        k = wbrun.compare_with_reference(
            desc, observed, ctx, 'dependent', case, overrides=ov,
            annotate=lambda key: {'_tag': 'probe:' if _is_probe(desc, key) else ''})
        ctx.count('monitor.dependent-cells', len(tainted & set(observed)))
        ctx.count('monitor.reference-cells', k)


def _is_probe(desc, key):
    cell = gw_cell(desc, key) or {}
    t = cell.get('f')
    return bool(t) and t[0] == 'call' and t[1] in rw.ERR_FUNCS + ('IF',) and key[2] >= 9


def gw_cell(desc, key):
    b, s, c, r = key
    return desc['books'][b]['sheets'][s]['cells'].get('%s%d' % (gw.col_name(c), r))


def plan(tier, seed):
    n, per = (320, 20) if tier == 'quick' else (4800, 150)
    return [{'kind': 'twins', 'lo': lo, 'hi': lo + per} for lo in range(0, n, per)]


def run(spec, ctx):
    case = None
    for i in range(spec['lo'], spec['hi']):
        case = make_case(spec['seed'], i)
        ctx.open_case({'kind': 'twin', 'id': i})
        check_case(case, ctx)
    if case:
        ctx.sample({'path': case['path'], 'faults': case['faults']})


def finalize(agg, tier):
    c, inc = agg['counters'], []
    for k, floor in (('monitor.twins', 150), ('monitor.local-cells', 3000),
                     ('monitor.dependent-cells', 1000),
                     ('monitor.reference-cells', 3000),
                     ('evidence.library-log-records', 20),
                     ('monitor.lazy-name-formula-readers', 10),
                     ('lazy.fault-reached', 20)):
        if c.get(k, 0) < floor:
            inc.append('monitor %s saw %d events (< %d)' % (k, c.get(k, 0), floor))
    for kind in BOTH:
        for path in ('dict', 'xlsx'):
            if not c.get('fault.%s.%s' % (kind, path)):
                inc.append('fault kind %s never injected on the %s path' % (kind, path))
    for kind in FILES:
        if not c.get('fault.%s.xlsx' % kind):
            inc.append('fault kind %s never injected' % kind)
    return {'inconclusive': inc}
