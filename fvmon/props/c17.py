"""C17 - copies and serialised models are equivalent and independent.

Two-object history monitor.  An original `a` (a model, or a function compiled
from it) is copied to `b` by copy.deepcopy or by a dill round trip - at the
start or after a few operations on `a` - and a random interleaving of
operations is applied to both: calculate with different overrides on each
side (cells, formula cells, names, dense and sparse ranges, unpopulated cells
inside ranges, ranges over array formulas), restricted outputs, re-finish,
compile, write, to_dict, calls of the compiled functions with different
arguments.  After every observable operation the result is compared with a
*fresh* object built from the same description that performs this one
operation only: equivalence (both sides agree with the fresh object for the
same inputs) and independence (what happened on the other side, or earlier on
this side, leaves no trace) are both violations of that single comparison.

Trio family: an original, a copy and a copy of that copy (all pairs of copy
methods).  Besides calculations, objects are *mutated*: write(model.books) -
monitored by provenance: every value found in an object's books must have been
produced by that object's own solutions (overrides carry values ending in a
per-object tag) - and from_dict of a new constant / formula in a free zone plus
finish(), judged against a fresh model that replays this object's own
structural operations only.  Workbooks of this family hold constant array
formulas smaller than their range (padding values live in the copied arrays).
"""
import copy
import random

from .. import xl, wbrun
from ..gen import workbooks as gw
from ..ref import workbook as rw
from .c07 import (gen_overrides, to_inputs, _sparsify, _name_and_target,
                  _ranges_over_arrays)
from .c08 import _rect_nodes, _lib_arg

ID = 'C17'
LEVEL = 'exploration'
RULE = ('a case is (workbook description incl. circular ones, object kind '
        'model|function, copy method deepcopy|dill, copy point, interleaved '
        'history of <= 10 operations with their arguments); distinct = '
        'distinct (description, history); non-trivial = at least one '
        'operation on each side was compared with a fresh object; trio '
        'cases: (description, two copy methods, history over three objects '
        'incl. write(model.books) and from_dict extensions)')
ASSUMPTIONS = [
    'the fresh object is built from the same description by the same load '
    'path and performs only the operation under comparison',
    'override targets within one operation are disjoint',
    'a structurally extended object is compared with a fresh model that '
    'received the same extensions (from_dict + finish) - the extension '
    'mechanism itself is not judged',
]
MODEL_OPS = ('calc', 'calc_x', 'calc_x', 'calc_o', 'calc_xo', 'refinish', 'compile',
             'write', 'to_dict', 'calc_x')


def _blank_targets(desc):
    """Unpopulated cells inside rectangles that formulas read."""
    ev = rw.Evaluator(desc)
    out = []
    for b, s, c1, r1, c2, r2 in _rect_nodes(desc):
        for c in range(c1, c2 + 1):
            for r in range(r1, r2 + 1):
                if not ev.populated((b, s, c, r)):
                    out.append((b, s, c, r))
    return sorted(set(out))


def gen_args(rng, desc):
    X = gen_overrides(rng, desc)
    if desc.get('focus_ranges') and rng.random() < 0.5:
        # the same range over an array formula, again and again, other values
        b, s, c1, r1, c2, r2 = rng.choice(desc['focus_ranges'])
        cells = {(b, s, c, r) for c in range(c1, c2 + 1) for r in range(r1, r2 + 1)}
        keep = []
        for x in X:
            if x[0] in ('cell', 'formula-cell') and tuple(x[1]) in cells:
                continue
            if x[0] == 'range' and cells & {
                    (x[1][0], x[1][1], c, r) for c in range(x[1][2], x[1][4] + 1)
                    for r in range(x[1][3], x[1][5] + 1)}:
                continue
            if x[0] == 'name':
                continue
            keep.append(x)
        X = keep + [['range', [b, s, c1, r1, c2, r2], [
            [float(rng.randint(1, 90)) for _ in range(c1, c2 + 1)]
            for _ in range(r1, r2 + 1)]]]
    used = set()
    for x in X:
        if x[0] in ('cell', 'formula-cell'):
            used.add(tuple(x[1]))
        elif x[0] == 'range':
            b, s, c1, r1, c2, r2 = x[1]
            used |= {(b, s, c, r) for c in range(c1, c2 + 1) for r in range(r1, r2 + 1)}
        else:
            node = desc['names'][x[1][0]]
            if node[0] == 'cell':
                used.add(tuple(node[1:5]))
            else:
                b, s, c1, r1, c2, r2 = node[1:7]
                used |= {(b, s, c, r) for c in range(c1, c2 + 1)
                         for r in range(r1, r2 + 1)}
    blanks = [k for k in _blank_targets(desc) if k not in used]
    if blanks and rng.random() < 0.6:
        for k in rng.sample(blanks, min(len(blanks), rng.randint(1, 2))):
            X.append(['cell', list(k), rng.choice((100.0, 7.0, 'txt', True, 55.5))])
    return X


def make_case(seed, i, tier='quick'):
    rng = random.Random('fvmon/C17/%s/%s' % (seed, i))
    if i % 7 == 6:
        return make_trio_case(rng, seed, i)
    if i % 6 == 5:
        return make_circ_case(rng, seed, i)
    circular = False
    desc = gw.gen(rng)
    if i % 2 == 0:
        _sparsify(rng, desc)
    if i % 4 == 1:
        _name_and_target(rng, desc)
    if i % 3 != 2:
        _ranges_over_arrays(rng, desc)
    if i % 4 == 3:
        # lookup functions (their helpers keep module-level state)
        sid = gw.sheet_id(desc['books'][0]['name'], desc['books'][0]['sheets'][0]['name'])
        c0 = desc['books'][0]['sheets'][0]['cells']
        for row, text in ((13, 'MATCH(2,%s!A1:A5,0)'), (14, 'IFERROR(VLOOKUP(1,%s!A1:B5,2,FALSE),-1)'),
                          (15, 'IFERROR(LOOKUP(3,%s!A1:A5),-2)'),
                          (16, 'IFERROR(HLOOKUP(1,%s!A1:C2,2,TRUE),-3)')):
            t = text % sid
            c0['K%d' % row] = {'f': ['call', 'IFERROR', [['raw', t.replace(sid + '!', ''), t],
                                                        ['lit', -9.0]]]}
        desc['formula_cells'] = list(desc.get('formula_cells', [])) + [
            [0, 0, 11, r] for r in (13, 14, 15, 16)]
        # an explicit blank cell (exported as #EMPTY by every object alike)
        desc['extra_dict'] = {gw.key_of(desc, 0, 0, 12, 17): '#EMPTY',
                              gw.key_of(desc, 0, 0, 12, 18): '#EMPTY'}
        c0['K18'] = {'f': ['call', 'COUNTBLANK', [['rng', 0, 0, 12, 17, 12, 18]]]}
    forms = wbrun.formula_cells(desc)
    if not forms:
        return None
    kind = 'function' if i % 3 == 1 else 'model'
    method = 'dill' if i % 2 else 'deepcopy'
    n = rng.randint(3, 10)
    copy_at = rng.choice((0, 0, 1, 2, 3))
    hist = []
    fn_inputs = fn_outputs = None
    if kind == 'function':
        X = [x for x in gen_overrides(rng, desc) if x[0] in ('cell', 'range')]
        # prefer a sparse rectangle (>= 2 unpopulated cells) among the inputs
        ev_ = rw.Evaluator(desc)
        sparse = [r for r in _rect_nodes(desc) if sum(
            1 for c in range(r[2], r[4] + 1) for rr_ in range(r[3], r[5] + 1)
            if not ev_.populated((r[0], r[1], c, rr_))) >= 2]
        if sparse and rng.random() < 0.7:
            r = rng.choice(sparse)
            cells_ = {(r[0], r[1], c, rr_) for c in range(r[2], r[4] + 1)
                      for rr_ in range(r[3], r[5] + 1)}
            X = [x for x in X if not (
                (x[0] == 'cell' and tuple(x[1]) in cells_) or
                (x[0] == 'range' and cells_ & {
                    (x[1][0], x[1][1], c, rr_) for c in range(x[1][2], x[1][4] + 1)
                    for rr_ in range(x[1][3], x[1][5] + 1)}))]
            X.append(['range', list(r), None])
        if not X:
            kind = 'model'
        else:
            fn_inputs = [[x[0], x[1]] for x in X]
            fn_outputs = [list(k) for k in rng.sample(forms, min(len(forms), rng.randint(1, 4)))]
            # outputs that are assembled from sparse ranges at call time
            blanks = _blank_targets(desc)
            if blanks:
                down = wbrun.downstream(desc, blanks)
                dn = [list(k) for k in forms if k in down and list(k) not in fn_outputs]
                fn_outputs += rng.sample(dn, min(len(dn), 2))
    for j in range(n):
        side = 'a' if j < copy_at else rng.choice('ab')
        if kind == 'function':
            if rng.random() < 0.25:
                # the model the function came from keeps working too
                X = gen_args(rng, desc)
                blanks = _blank_targets(desc)
                if blanks and not any(tuple(x[1]) in blanks for x in X if x[0] == 'cell'):
                    used = {tuple(x[1]) for x in X if x[0] in ('cell', 'formula-cell')}
                    k = rng.choice(blanks)
                    if k not in used and not any(x[0] in ('range', 'name') for x in X):
                        X.append(['cell', list(k), 100.0])
                hist.append([side, 'model_calc_x', X])
                continue
            args = []
            for k_, key in fn_inputs:
                if k_ == 'range':
                    b, s, c1, r1, c2, r2 = key
                    args.append([[rng.choice(wbrun.VALUE_POOL[:10])
                                  for _ in range(c1, c2 + 1)] for _ in range(r1, r2 + 1)])
                else:
                    args.append(rng.choice(wbrun.VALUE_POOL))
            hist.append([side, 'call', args])
        else:
            op = rng.choice(MODEL_OPS)
            arg = None
            if op in ('calc_x', 'calc_xo', 'compile'):
                arg = {'X': gen_args(rng, desc)}
            if op in ('calc_o', 'calc_xo', 'compile'):
                arg = dict(arg or {}, O=[list(k) for k in rng.sample(
                    forms, min(len(forms), rng.randint(1, 3)))])
            hist.append([side, op, arg])
    return {'kind': 'pair', 'id': '%s/%s' % (seed, i), 'desc': desc, 'object': kind,
            'method': method, 'copy_at': copy_at, 'history': hist,
            'circular': circular, 'fn_inputs': fn_inputs, 'fn_outputs': fn_outputs,
            'path': 'xlsx' if i % 8 == 7 else 'dict'}


def _load(case, tag):
    desc = case['desc']
    if case['path'] == 'xlsx':
        import os
        from .. import worker
        m, _ = wbrun.load_xlsx(desc, os.path.join(worker.scratch_dir(), 'c17', tag))
        return m
    return wbrun.load_dict(desc)


def _copy(obj, method):
    import dill
    if method == 'dill':
        return dill.loads(dill.dumps(obj))
    return copy.deepcopy(obj)


def _registers(m):
    """What copying must leave alone in the object that is copied."""
    return {'cells': sorted(map(str, getattr(m, 'cells', {}) or {})),
            'books': sorted(map(str, getattr(m, 'books', {}) or {})),
            'nodes': len(m.dsp.nodes), 'basedir': getattr(m, 'basedir', None)}


def _copy_checked(model, obj, method, ctx, what, w):
    """Copies obj (model, or a tuple holding it); the original model's own
    registers must be the same afterwards."""
    before = _registers(model)
    out = _copy(obj, method)
    after = _registers(model)
    ctx.count('monitor.original-intact-after-copy')
    if before != after:
        k = [x for x in before if before[x] != after[x]][0]
        ctx.violation('copying-changed-the-original:%s:%s' % (what, k), dict(
            w, observed='%s: %d entries' % (k, len(after[k])) if isinstance(
                after[k], list) else repr(after[k]),
            accepted=['%s: %d entries (as before the copy)' % (k, len(before[k]))
                      if isinstance(before[k], list) else repr(before[k])]))
    cp = out[0] if isinstance(out, tuple) else out
    if hasattr(cp, 'dsp') and hasattr(model, 'basedir') and \
            getattr(cp, 'basedir', '<no attribute>') != model.basedir:
        # further workbooks are loaded relative to it (add_book / loads)
        ctx.violation('copy-lacks-basedir:%s' % what, dict(
            w, observed=repr(getattr(cp, 'basedir', '<no attribute>')),
            accepted=[repr(model.basedir)]))
    return out


def _ids(desc, items):
    out = []
    for kind, key in items:
        out.append(gw.rect_key(desc, *key) if kind == 'range' else gw.key_of(desc, *key))
    return out


def _compile(m, case):
    desc = case['desc']
    in_ids = _ids(desc, case['fn_inputs'])
    out_keys = [tuple(k) for k in case['fn_outputs']]
    out_ids = [wbrun.node_key(desc, k) for k in out_keys]
    if any(n not in m.dsp.nodes for n in in_ids + out_ids):
        return None
    return m.compile(in_ids, out_ids), out_keys, out_ids


def _observe_model(m, desc, op, arg):
    """Performs op on m, returns canonical observation or None (no output)."""
    if op in ('calc', 'calc_x', 'calc_o', 'calc_xo'):
        kw = {}
        if arg and arg.get('X'):
            kw['inputs'] = to_inputs(desc, arg['X'])
        if arg and arg.get('O'):
            O = [wbrun.node_key(desc, tuple(k)) for k in arg['O']]
            O = [o for o in O if o in m.dsp.nodes and o not in kw.get('inputs', {})]
            if O:
                kw['outputs'] = O
        sol = m.calculate(**kw)
        obs = wbrun.solution_cells(desc, sol)
        return {k: v for k, v in obs.items() if v != ('missing',)} \
            if 'outputs' in kw else obs
    if op == 'refinish':
        m.finish()
        return None
    if op == 'compile':
        inp = to_inputs(desc, [x for x in arg['X'] if x[0] in ('cell', 'range')])
        ids = [i for i in inp if i in m.dsp.nodes]
        outs = [wbrun.node_key(desc, tuple(k)) for k in arg['O']]
        outs = [o for o in outs if o in m.dsp.nodes and o not in ids]
        if not (ids and outs):
            return None
        res = m.compile(ids, outs)(*[inp[i] for i in ids])
        keys = [tuple(k) for k in arg['O'] if wbrun.node_key(desc, tuple(k)) in outs]
        return wbrun.observed_outputs(desc, res, keys, outs)
    if op == 'write':
        m.write()
        return None
    if op == 'to_dict':
        d = m.to_dict()
        return {('dict', k): ('text', repr(v)[:80]) for k, v in sorted(
            d.items(), key=lambda kv: str(kv[0]))}
    raise ValueError(op)


# -- circular workbooks (description format of C10) ------------------------------------

def make_circ_case(rng, seed, i):
    from . import c10
    while True:
        desc = c10.gen_workbook(rng)
        if not desc['names']:
            break
    cells = sorted(desc['cells'])
    kind = 'function' if rng.random() < 0.4 else 'model'
    fn_in = ['G%d' % rng.randint(1, 4), 'K1']
    fn_out = rng.sample(cells, min(len(cells), 4))
    hist = []
    copy_at = rng.choice((0, 0, 1, 2))
    for j in range(rng.randint(3, 9)):
        side = 'a' if j < copy_at else rng.choice('ab')
        if kind == 'function':
            hist.append([side, 'call', [rng.choice((True, False, 1.0, 0.0)),
                                        float(rng.randint(1, 9))]])
        else:
            op = rng.choice(('calc', 'calc_x', 'calc_x', 'calc_x', 'refinish'))
            arg = None
            if op == 'calc_x':
                arg = {k: rng.choice((True, False, 1.0, 0.0))
                       for k in rng.sample(['G1', 'G2', 'G3', 'G4'], rng.randint(1, 3))}
                if rng.random() < 0.5:
                    arg['K1'] = float(rng.randint(1, 9))
            hist.append([side, op, arg])
    return {'kind': 'pair', 'id': '%s/%s' % (seed, i), 'desc': desc, 'object': kind,
            'method': 'dill' if (i // 6) % 2 else 'deepcopy', 'copy_at': copy_at,
            'history': hist, 'circular': True, 'fn_inputs': fn_in,
            'fn_outputs': fn_out, 'path': 'dict'}


class CircWorld:
    def __init__(self, case):
        from . import c10
        self.case, self.desc = case, case['desc']
        self.d = c10.to_dict(self.desc)

    def load(self, tag):
        import formulas
        m = formulas.ExcelModel().from_dict(dict(self.d), assemble=False)
        m.finish(complete=False, circular=True)
        return m

    def compile(self, m):
        ins, outs = self.case['fn_inputs'], self.case['fn_outputs']
        if any(n not in m.dsp.nodes for n in ins + outs):
            return None
        return m.compile(ins, outs), outs, outs

    def obs(self, sol):
        out = {}
        for k in self.d:
            if k in sol:
                try:
                    out[(k,)] = xl.canon(xl.scalar(sol[k]))
                except Exception as ex:
                    out[(k,)] = ('foreign', type(ex).__name__)
        return out

    def observe_model(self, m, op, arg):
        if op == 'refinish':
            m.finish(complete=False, circular=True)
            return None
        return self.obs(m.calculate(inputs=dict(arg)) if arg else m.calculate())

    def call(self, f, arg):
        fn, keys, ids = f
        res = fn(*arg)
        res = res if isinstance(res, (list, tuple)) else [res]
        return {(k,): xl.canon(xl.scalar(v)) for k, v in zip(keys, res)}

    def cellname(self, k):
        return k[0]


class FlatWorld:
    def __init__(self, case):
        self.case, self.desc = case, case['desc']

    def load(self, tag):
        return _load(self.case, tag)

    def compile(self, m):
        return _compile(m, self.case)

    def observe_model(self, m, op, arg):
        if op == 'model_calc_x':
            op, arg = 'calc_x', {'X': arg}
        return _observe_model(m, self.desc, op, arg)

    def call(self, f, arg):
        fn, keys, ids = f
        return wbrun.observed_outputs(self.desc, fn(*[_lib_arg(x) for x in arg]), keys, ids)

    def cellname(self, k):
        return gw.key_of(self.desc, *k) if len(k) == 4 else repr(k)


# -- three objects: an original and two restored copies ---------------------------------
# A free zone of the first sheet (N1:Q4) that no generated cell uses: constants
# and formulas are added there to one object at a time, and values that exist
# nowhere else (they end in the tag of the side) are fed through it.
FREE_COLS, FREE_ROWS, FREE_FCOL = (14, 15, 16), (1, 2, 3, 4), 17
TAG = {'a': 0.125, 'b': 0.375, 'c': 0.625}
TRIO_OPS = ('calc_x', 'calc_x', 'write_books', 'write_books', 'extend_const',
            'extend_formula', 'calc', 'to_dict', 'refinish')
TRIO_METHODS = (('deepcopy', 'dill'), ('dill', 'deepcopy'), ('deepcopy', 'deepcopy'),
                ('dill', 'dill'))


def _const_arrays(desc):
    """Array formulas whose constant result is smaller than their range (the
    rest of the range is padding), and readers of the padded cells."""
    cells = desc['books'][0]['sheets'][0]['cells']
    full = lambda ref: "%s!%s" % (gw.sheet_id(desc['books'][0]['name'],
                                              desc['books'][0]['sheets'][0]['name']), ref)
    for row, text in ((6, '{1,2}'), (7, 'ISERROR({1,2})'), (8, '{"p";"q"}')):
        cells['N%d' % row] = {'f': ['raw', text, text], 'arr': [14, row, 16, row]}
        cells['Q%d' % row] = {'f': ['raw', 'COUNT(N%d:P%d)+COUNTIF(N%d:P%d,TRUE)' % (
            row, row, row, row), 'COUNT(%s)+COUNTIF(%s,TRUE)' % (
            full('N%d:P%d' % (row, row)), full('N%d:P%d' % (row, row)))]}


def make_trio_case(rng, seed, i):
    desc = gw.gen(rng)
    if i % 2:
        _sparsify(rng, desc)
    _const_arrays(desc)
    if not wbrun.formula_cells(desc):
        return None
    sid = gw.sheet_id(desc['books'][0]['name'], desc['books'][0]['sheets'][0]['name'])
    hist, n, copy_at = [], rng.randint(7, 12), rng.choice((0, 0, 1, 2))
    for j in range(n):
        side = 'a' if j < copy_at else rng.choice('abbcc')
        op = rng.choice(TRIO_OPS)
        arg = None
        if op == 'calc_x':
            free = [[rng.choice(FREE_COLS), rng.choice(FREE_ROWS), 1000.0 + j + TAG[side]]]
            arg = {'X': gen_args(rng, desc), 'free': free}
        elif op == 'extend_const':
            arg = [rng.choice(FREE_COLS), rng.choice(FREE_ROWS[:3]), 50.0 + j + TAG[side]]
        elif op == 'extend_formula':
            c1, c2 = sorted((rng.choice(FREE_COLS), rng.choice(FREE_COLS)))
            r1, r2 = sorted((rng.choice(FREE_ROWS), rng.choice(FREE_ROWS)))
            arg = [FREE_FCOL, rng.choice(FREE_ROWS), '=SUM(%s!%s%d:%s%d)' % (
                sid, gw.col_name(c1), r1, gw.col_name(c2), r2)]
        hist.append([side, op, arg])
    return {'kind': 'trio', 'id': '%s/%s' % (seed, i), 'desc': desc, 'object': 'model',
            'methods': list(TRIO_METHODS[(i // 7) % 4]), 'copy_at': copy_at,
            'history': hist, 'path': 'dict'}


def _free_keys():
    return [(0, 0, c, r) for c in FREE_COLS + (FREE_FCOL,) for r in FREE_ROWS]


def _written(v):
    """What ExcelModel.write stores for a solved value."""
    import schedula as sh
    import numpy as np
    from formulas.tokens.operand import XlError
    if v is sh.EMPTY or (isinstance(v, str) and not v):
        return None
    if isinstance(v, np.generic):
        v = v.item()
    elif isinstance(v, XlError):
        v = str(v)
    return v


def _solution_values(m, into):
    """(BOOK, SHEET, column, row) -> set of reprs of the values the object's own
    solution holds for that cell."""
    import numpy as np
    from formulas.ranges import Ranges
    import schedula as sh
    for k, r in m.dsp.solution.items():
        if isinstance(k, sh.Token):
            continue
        if not isinstance(r, Ranges):
            try:
                r = Ranges().push(k, r)
            except Exception:
                continue
        if len(r.ranges) != 1:
            continue
        rg = r.ranges[0]
        try:
            sid, c1, r1, c2, r2 = wbrun.rect_of(rg)
            vals = np.asarray(r.value, object)
        except Exception:
            continue
        if vals.ndim != 2 or (c2 - c1 + 1) * (r2 - r1 + 1) > 4096:
            continue
        for (y, x), v in np.ndenumerate(vals):
            w = _written(v)
            into.setdefault((sid.upper(), c1 + x, r1 + y), set()).add(
                '%s:%r' % (type(w).__name__, w))
    return into


def _books_cells(m):
    from formulas.excel import BOOK
    out = {}
    for fpath, d in m.books.items():
        if BOOK not in d:
            continue
        for ws in d[BOOK].worksheets:
            sid = gw.sheet_id(fpath.split('/')[-1], ws.title).upper()
            for row in ws.iter_rows():
                for c in row:
                    if c.value is not None:
                        out[(sid, c.column, c.row)] = '%s:%r' % (
                            type(c.value).__name__, c.value)
    return out


def _trio_apply(m, desc, op, arg):
    """Performs op on m; returns a canonical observation or None."""
    if op == 'calc_x':
        inputs = to_inputs(desc, arg['X'])
        for c, r, v in arg['free']:
            inputs[gw.key_of(desc, 0, 0, c, r)] = v
        sol = m.calculate(inputs=inputs)
    elif op == 'calc':
        sol = m.calculate()
    elif op == 'extend_const' or op == 'extend_formula':
        m.from_dict({gw.key_of(desc, 0, 0, arg[0], arg[1]): arg[2]})
        m.finish()
        return None
    elif op == 'refinish':
        m.finish()
        return None
    elif op == 'to_dict':
        return _observe_model(m, desc, 'to_dict', None)
    else:
        raise ValueError(op)
    obs = wbrun.solution_cells(desc, sol)
    obs.update(wbrun.solution_cells(desc, sol, _free_keys()))
    return obs


def check_trio(case, ctx):
    desc, (m1, m2) = case['desc'], case['methods']
    what = 'trio:%s+%s' % (m1, m2)
    try:
        objs = {'a': wbrun.load_dict(desc)}
    except Exception as ex:
        ctx.count('load-raised')
        ctx.see('load-raised', '%s: %s' % (type(ex).__name__, str(ex)[:80]))
        return
    struct = {'a': []}                      # structural operations of each object
    prov = {'a': {k: {v} for k, v in _books_cells(objs['a']).items()}}
    seen = {'a': 0, 'b': 0, 'c': 0}
    last_calc = {'a': None, 'b': None, 'c': None}
    for step, (side, op, arg) in enumerate(case['history']):
        w = {'case': case, 'step': step, 'side': side, 'operation': op,
             'history_so_far': [[s_, o_] for s_, o_, _ in case['history'][:step + 1]]}
        if 'b' not in objs and step >= case['copy_at']:
            try:
                objs['b'] = _copy_checked(objs['a'], objs['a'], m1, ctx, what, w)
                objs['c'] = _copy_checked(objs['b'], objs['b'], m2, ctx, what, w)
            except Exception as ex:
                ctx.violation('copy-raised:%s:%s' % (what, type(ex).__name__), dict(
                    w, observed='%s: %s' % (type(ex).__name__, str(ex)[:200]),
                    accepted=['a copy']))
                return
            ctx.count('copies.' + what)
            for s_ in 'bc':
                struct[s_] = list(struct['a'])
                prov[s_] = {k: set(v) for k, v in prov['a'].items()}
                last_calc[s_] = last_calc['a']
        if side not in objs:
            side = w['side'] = 'a'
        m = objs[side]
        ctx.see('trio-bigram', '%s%s' % (side, op))
        def fresh_replay():
            f = wbrun.load_dict(desc)
            for o_, a_ in struct[side]:
                _trio_apply(f, desc, o_, a_)
            return f

        def raised(ex):
            # an operation that raises on a fresh model with the same
            # structural history too is not C17's business
            ctx.count('operation-raised')
            ctx.see('operation-raised', '%s %s: %s' % (op, type(ex).__name__, str(ex)[:60]))
            try:
                f = fresh_replay()
                if op == 'write_books':
                    if last_calc[side]:
                        _trio_apply(f, desc, *last_calc[side])
                    f.write(f.books)
                else:
                    _trio_apply(f, desc, op, arg)
            except Exception:
                return False
            ctx.violation('raised-only-on-this-object:%s:%s:%s' % (
                what, op, type(ex).__name__), dict(
                w, own_structural_operations=[list(x) for x in struct[side]],
                observed='%s: %s' % (type(ex).__name__, str(ex)[:200]),
                accepted=['what a fresh model with the same structural operations does: '
                          'no exception']))
            return True
        if op == 'write_books':
            try:
                _solution_values(m, prov[side])
                m.write(m.books)
                got = _books_cells(m)
            except Exception as ex:
                if raised(ex):
                    return
                continue
            ctx.count('op.write_books')
            ctx.count('monitor.books-provenance')
            ctx.count('monitor.books-cells-traced', len(got))
            seen[side] += 1
            bad = sorted(k for k, v in got.items() if v not in prov[side].get(k, ()))
            if bad:
                k = bad[0]
                ctx.violation('books-hold-foreign-value:%s' % what, dict(
                    w, cell='%s!%s%d' % (k[0], gw.col_name(k[1]), k[2]), n_cells=len(bad),
                    observed=got[k], accepted=sorted(prov[side].get(k, ())) or [
                        'nothing: no calculation of this object produced a value there']))
                return
            continue
        try:
            got = _trio_apply(m, desc, op, arg)
        except Exception as ex:
            raised(ex)
            return
        try:
            want = _trio_apply(fresh_replay(), desc, op, arg)
        except Exception as ex:
            ctx.count('fresh-raised')
            ctx.see('operation-raised', 'fresh %s %s: %s' % (
                op, type(ex).__name__, str(ex)[:60]))
            return
        ctx.count('op.' + op)
        if op in ('calc', 'calc_x'):
            last_calc[side] = (op, arg)
        if op in ('extend_const', 'extend_formula', 'refinish'):
            struct[side].append((op, arg))
            continue
        seen[side] += 1
        ctx.count('monitor.compared-with-fresh')
        ctx.count('monitor.trio-side-%s' % side)
        diff = [k for k in want if not xl.same(got.get(k, ('missing',)), want[k], rel=1e-12)]
        diff += [k for k in got if k not in want]
        if diff:
            k = diff[0]
            ctx.violation('differs-from-fresh:%s:%s' % (what, op), dict(
                w, cell=gw.key_of(desc, *k) if len(k) == 4 else repr(k), n_cells=len(diff),
                own_structural_operations=[list(x) for x in struct[side]],
                observed=xl.show(got.get(k, ('missing',))),
                accepted=[xl.show(want.get(k, ('missing',))) +
                          ' (fresh object, same structural operations, same operation)']))
            return
    if sum(1 for v in seen.values() if v) >= 2:
        ctx.case((case['id'], [[s_, o_] for s_, o_, _ in case['history']]))
        ctx.count('monitor.trio-histories')
    else:
        ctx.case((case['id'], 'one-sided'), nontrivial=False)


def check_case(case, ctx):
    if case.get('kind') == 'trio':
        return check_trio(case, ctx)
    desc = case['desc']
    world = CircWorld(case) if case.get('circular') else FlatWorld(case)
    what = '%s:%s%s' % (case['object'], case['method'],
                        ':circular' if case.get('circular') else '')
    try:
        a = world.load('a')
        fa = None
        if case['object'] == 'function':
            fa = world.compile(a)
            if fa is None:
                ctx.count('skipped.node-absent')
                return
    except Exception as ex:
        ctx.count('load-raised')
        ctx.see('load-raised', '%s: %s' % (type(ex).__name__, str(ex)[:80]))
        return
    b = fb = None
    seen = {'a': 0, 'b': 0}
    prev = 'start'
    # what a fresh object has to replay to be comparable: re-finishing is a
    # mutation of the object itself (its own effect is C15's clause), write()
    # stores the last solution of the object
    refinished = {'a': 0, 'b': 0}
    last_calc = {'a': None, 'b': None}

    def fresh_for(side, tag, op):
        f = world.load(tag)
        for _ in range(refinished[side]):
            world.observe_model(f, 'refinish', None)
        if op == 'write' and last_calc[side]:
            world.observe_model(f, *last_calc[side])
        return f
    for step, (side, op, arg) in enumerate(case['history']):
        w = {'case': case, 'step': step, 'side': side, 'operation': op,
             'history_so_far': [[s_, o_] for s_, o_, _ in case['history'][:step + 1]]}
        if b is None and step >= case['copy_at']:
            try:
                if case['object'] == 'function':
                    # the pair (model, function) is copied together
                    b, fb0 = _copy_checked(a, (a, fa[0]), case['method'], ctx, what, w)
                    fb = (fb0, fa[1], fa[2])
                else:
                    b = _copy_checked(a, a, case['method'], ctx, what, w)
            except Exception as ex:
                ctx.violation('copy-raised:%s:%s' % (what, type(ex).__name__), dict(
                    w, observed='%s: %s' % (type(ex).__name__, str(ex)[:200]),
                    accepted=['a copy']))
                return
            ctx.count('copies.' + what)
            refinished['b'], last_calc['b'] = refinished['a'], last_calc['a']
        if side == 'b' and b is None:
            side = 'a'
        ctx.see('bigram', '%s>%s%s' % (prev, side, op))
        prev = side + op
        try:
            fresh = fresh_for(side, 'fresh', op)
            if op == 'call':
                got = world.call(fa if side == 'a' else fb, arg)
                if not case.get('circular'):
                    # what the function published for node-less members of its
                    # range inputs (into the model of its own side) is current
                    from .c08 import published_stale
                    stale = published_stale(
                        a if side == 'a' else b, (fa if side == 'a' else fb)[0], desc,
                        case['fn_inputs'], arg, ctx)
                    if stale:
                        ctx.violation('stale-published-member:%s' % what, dict(
                            w, cell=stale[0], observed=xl.show(stale[1]),
                            accepted=[xl.show(stale[2]) + ' (the value supplied in this call)']))
                        return
                want = world.call(world.compile(fresh), arg)
            else:
                m = a if side == 'a' else b
                got = world.observe_model(m, op, arg)
                want = world.observe_model(fresh, op, arg) if got is not None else None
        except Exception as ex:
            ctx.count('operation-raised')
            ctx.see('operation-raised', '%s %s: %s' % (op, type(ex).__name__, str(ex)[:60]))
            # an operation that raises on a fresh object too is not C17's business
            try:
                fresh = fresh_for(side, 'fresh2', op)
                if op == 'call':
                    world.call(world.compile(fresh), arg)
                else:
                    world.observe_model(fresh, op, arg)
            except Exception:
                continue
            ctx.violation('raised-only-after-history:%s:%s:%s' % (
                what, op, type(ex).__name__), dict(
                w, observed='%s: %s' % (type(ex).__name__, str(ex)[:200]),
                accepted=['what a fresh object does: no exception']))
            return
        ctx.count('op.' + op)
        if op == 'refinish':
            refinished[side] += 1
        elif op in ('calc', 'calc_x', 'calc_o', 'calc_xo', 'model_calc_x'):
            last_calc[side] = (op, arg)
        if got is None:
            continue
        seen[side] += 1
        ctx.count('monitor.compared-with-fresh')
        ctx.count('monitor.side-%s' % side)
        diff = [k for k in want if not xl.same(got.get(k, ('missing',)), want[k], rel=1e-12)]
        diff += [k for k in got if k not in want]
        if diff:
            k = diff[0]
            other = [o_ for s_, o_, _ in case['history'][:step] if s_ != side]
            ctx.violation('differs-from-fresh:%s:%s:%s' % (
                what, op, 'after-ops-on-other-side' if other else 'same-side-history'), dict(
                w, cell=world.cellname(k),
                n_cells=len(diff), observed=xl.show(got.get(k, ('missing',))),
                accepted=[xl.show(want.get(k, ('missing',))) + ' (fresh object, same operation)']))
            return
    if seen['a'] and seen['b']:
        ctx.case((case['id'], [[s_, o_] for s_, o_, _ in case['history']]))
        ctx.count('monitor.histories-both-sides')
    else:
        ctx.case((case['id'], 'one-sided'), nontrivial=False)


def plan(tier, seed):
    n, per = (192, 12) if tier == 'quick' else (3200, 100)
    return [{'kind': 'pairs', 'lo': lo, 'hi': lo + per, 'tier': tier, 'timeout': 1500}
            for lo in range(0, n, per)]


def run(spec, ctx):
    case = None
    for i in range(spec['lo'], spec['hi']):
        c = make_case(spec['seed'], i, spec.get('tier', 'quick'))
        if c is None:
            continue
        case = c
        ctx.open_case({'kind': case.get('kind', 'pair'), 'id': case['id']})
        check_case(case, ctx)
    if case:
        ctx.sample({'object': case['object'], 'method': case.get('method') or case['methods'],
                    'copy_at': case['copy_at'],
                    'history': [[s_, o_] for s_, o_, _ in case['history']]})


def finalize(agg, tier):
    c, inc = agg['counters'], []
    for k, floor in (('monitor.compared-with-fresh', 600), ('monitor.side-a', 200),
                     ('monitor.side-b', 200), ('monitor.histories-both-sides', 80),
                     ('copies.model:deepcopy', 20), ('copies.model:dill', 20),
                     ('copies.function:deepcopy', 10), ('copies.function:dill', 10),
                     ('op.call', 100), ('op.calc_x', 100),
                     ('copies.model:deepcopy:circular', 3), ('copies.model:dill:circular', 3),
                     ('copies.function:deepcopy:circular', 1),
                     ('copies.function:dill:circular', 1),
                     ('monitor.trio-histories', 12), ('monitor.books-provenance', 20),
                     ('monitor.books-cells-traced', 300), ('monitor.trio-side-b', 12),
                     ('monitor.trio-side-c', 12), ('op.extend_const', 8),
                     ('op.extend_formula', 8)):
        if c.get(k, 0) < floor:
            inc.append('monitor %s saw %d events (< %d)' % (k, c.get(k, 0), floor))
    return {'inconclusive': inc, 'coverage': {
        'operation_bigrams': len(agg['sets'].get('bigram', ()))}}
