"""C03 - a calculated workbook is a consistent fixed point, whatever the order.

Three monitors on generated acyclic workbooks:
 1. reference-model monitor: every populated cell vs ref.workbook;
 2. fixed-point invariant at the quiescent point after calculate(): every
    cell function re-applied to the solved inputs gives the solved output;
    every solved range equals its member cells position by position;
 3. offline order / hash-seed checker: all variants of one description
    (dict insertion orders, sheet and book orders of the xlsx files, both load
    paths, PYTHONHASHSEED values - one worker process per seed) must yield one
    and the same canonical solution.
"""
import os
import hashlib
import numpy as np

from .. import xl, wbrun, worker
from ..gen import workbooks as gw
from ..ref import workbook as rw
from ..ref.ranges import rect_of, col_name

ID = 'C03'
LEVEL = 'exploration'
RULE = ('a case is (workbook description, variant); descriptions: random '
        'acyclic dependency graphs over 1-2 books x 1-3 sheets with constants '
        'of every kind (numbers, text, logicals, one error kind, unpopulated '
        'cells) and formulas using single-cell, rectangle, whole-row (whole-'
        'column in thorough), cross-sheet, cross-book, defined-name and '
        'array-formula references; variants: >=5 dict insertion orders, 2 '
        'sheet orders x 2 book orders of the xlsx files, both load paths, '
        '4 (quick) / 16 (thorough) PYTHONHASHSEED values; distinct = distinct '
        '(description, variant, hash seed); non-trivial = calculated and '
        'compared (reference, fixed point, cross-variant digest)')
ASSUMPTIONS = [
    'reference vocabulary: + - * & comparisons on small integers/text/'
    'logicals, SUM/MIN/MAX/COUNT/COUNTA, IF, ISBLANK, INDEX, array formulas '
    'range*k / range+k; a formula cell whose value is not certain under these '
    'rules is not judged by monitor 1 (still by 2 and 3)',
    'at most one error kind per workbook (which error wins in an aggregation '
    'is not prescribed)',
    'a blank shown by a formula is accepted as 0',
    'numeric-looking text constants are not generated here (how aggregations '
    'treat numeric text inside ranges is judged by C12)',
]


def _seq_hash(seq):
    return hashlib.blake2b('|'.join(seq).encode(), digest_size=6).hexdigest()


class EvalOrder:
    """P-model: records the order in which cell functions are evaluated."""
    installed = False
    seq = []
    ids = []

    @classmethod
    def install(cls):
        if cls.installed:
            return
        from formulas.cell import CellWrapper
        orig = CellWrapper.__call__

        def __call__(self, *a, **kw):
            EvalOrder.seq.append(getattr(self, '__name__', '?'))
            EvalOrder.ids.append(id(self))
            return orig(self, *a, **kw)
        CellWrapper.__call__ = __call__
        cls.installed = True


def fixed_point(model, sol, ctx, case):
    """Invariant at the quiescent point after calculate()."""
    from formulas.cell import CellWrapper, RangesAssembler, InvRangesAssembler, format_output
    from formulas.functions import replace_empty
    from formulas.ranges import Ranges
    dsp = model.dsp
    n = 0
    for fid, node in dsp.function_nodes.items():
        fn = node['function']
        if isinstance(fn, CellWrapper):
            outs = node['outputs']
            try:
                args = [sol[i] for i in node['inputs']]
            except KeyError:
                continue          # an input was not solved: reported by monitor 1
            if outs[0] not in sol:
                continue
            EvalOrder_len = len(EvalOrder.seq)
            try:
                res = replace_empty(fn(*args))
            except Exception as ex:
                ctx.violation('fixed-point:raised:%s' % type(ex).__name__, {
                    'case': case, 'node': str(fid), 'observed': repr(ex)[:150],
                    'accepted': ['the solved value']})
                continue
            finally:
                del EvalOrder.seq[EvalOrder_len:]
            got = sol[outs[0]]
            try:
                rng = got.ranges[0]
                want = format_output(rng, res).value
                a, b = xl.canon(want), xl.canon(got.value)
            except Exception:
                a, b = xl.canon(xl.unwrap(res)), xl.canon(xl.unwrap(got))
            n += 1
            if not xl.same(a, b, rel=1e-12):
                ctx.violation('fixed-point:cell-differs', {
                    'case': case, 'node': str(outs[0]), 'formula': str(fid),
                    'observed': xl.show(b), 'accepted': [xl.show(a)]})
    ctx.count('fixedpoint.cells', n)
    # range nodes vs member cells
    m = 0
    for name, r in sol.items():
        if not isinstance(r, Ranges) or not isinstance(name, str) or len(r.ranges) != 1:
            continue
        s, c1, r1, c2, r2 = rect_of(r.ranges[0])
        if (c1, r1) == (c2, r2) or (c2 - c1 + 1) * (r2 - r1 + 1) > 20000:
            continue
        if any(isinstance(dsp.nodes.get(p, {}).get('function'), CellWrapper)
               for p in dsp.dmap.pred.get(name, ())):
            continue          # output of an array formula, not an assembly
        try:
            val = r.value
        except Exception:
            continue
        for rr in range(r1, min(r2, r1 + 40) + 1):
            for cc in range(c1, min(c2, c1 + 40) + 1):
                cell = '%s!%s%d' % (s, col_name(cc), rr) if s else '%s%d' % (col_name(cc), rr)
                el = xl.canon(val[rr - r1, cc - c1])
                if cell in sol:
                    cv = xl.canon(xl.scalar(sol[cell]))
                elif cell in dsp.nodes:
                    continue
                else:
                    cv = xl.BLANK
                    if _covered(sol, s, cc, rr, name):
                        continue
                m += 1
                if not xl.same(el, cv) and not (cv == xl.BLANK and el == xl.BLANK):
                    ctx.violation('fixed-point:range-element', {
                        'case': case, 'range': name, 'cell': cell,
                        'observed': xl.show(el), 'accepted': [xl.show(cv)]})
    ctx.count('fixedpoint.range-elements', m)


def _covered(sol, s, c, r, skip):
    from formulas.ranges import Ranges
    for n, x in sol.items():
        if n == skip or not isinstance(x, Ranges) or len(x.ranges) != 1:
            continue
        ss, c1, r1, c2, r2 = rect_of(x.ranges[0])
        if ss == s and c1 <= c <= c2 and r1 <= r <= r2 and (c1, r1) != (c2, r2) \
                and (c2 - c1 + 1) * (r2 - r1 + 1) <= 64:
            return True
    return False


def make_desc(seed, i, tier):
    import random
    rng = random.Random('fvmon/C03/%s/%s' % (seed, i))
    desc = gw.gen(rng, whole_col=(tier == 'thorough' and i % 40 == 0))
    if i % 4 == 1:
        gw.add_adjacent_arrays(rng, desc)
    if i % 5 == 2:
        desc['spill_cache'] = True      # .xlsx files as Excel saves them
    if i % 3 == 0:
        # constants of very small and very large magnitude (stored values must
        # survive loading from a file as they do from a dictionary)
        nums = [(sh_, k) for bk in desc['books'] for sh_ in bk['sheets']
                for k, c in sorted(sh_['cells'].items())
                if isinstance(c.get('v'), float)]
        for sh_, k in rng.sample(nums, min(len(nums), 3)):
            sh_['cells'][k]['v'] = rng.choice((1.5e-20, -2.5e-17, 3e-16, 1.25e+20, 7e-300))
    return desc


# -- sheet-less workbooks: A1 and relative R1C1 spellings are the same formula ------

def make_flat_case(seed, i):
    import random
    rng = random.Random('fvmon/C03/flat/%s/%s' % (seed, i))
    consts = {}
    for c in range(1, 4):
        for r in range(1, 13):
            if rng.random() < 0.8:
                consts[(c, r)] = float(rng.randint(-9, 40))
    forms = {}
    made = []
    for n in range(rng.randint(5, 12)):
        host = (rng.randint(5, 9), rng.randint(1, 14))
        if host in forms:
            continue
        terms = []
        for _ in range(rng.randint(1, 3)):
            t = rng.random()
            if t < 0.5:
                c1, c2 = sorted((rng.randint(1, 3), rng.randint(1, 3)))
                r1, r2 = sorted((rng.randint(1, 12), rng.randint(1, 12)))
                terms.append(['SUM', [c1, r1, c2, r2]] if rng.random() < 0.7 else
                             ['COUNT', [c1, r1, c2, r2]])
            elif t < 0.8 or not made:
                terms.append(['cell', [rng.randint(1, 3), rng.randint(1, 12)]])
            else:
                terms.append(['cell', list(rng.choice(made))])
        forms[host] = terms
        made.append(host)
    return {'kind': 'flat', 'id': i, 'consts': [[c, r, v] for (c, r), v in consts.items()],
            'forms': [[c, r, t] for (c, r), t in forms.items()]}


def _flat_dict(case, mode):
    d = {}
    for c, r, v in case['consts']:
        d['%s%d' % (col_name(c), r)] = v

    def ref(c, r, hc, hr):
        if mode == 'a1':
            return '%s%d' % (col_name(c), r)
        if c != hc and r != hr:          # the library reads R[..]C[..] only with
            return 'R[%d]C[%d]' % (r - hr, c - hc)     # both offsets non-zero
        return 'R%dC%d' % (r, c)
    for hc, hr, terms in case['forms']:
        parts = []
        for t in terms:
            if t[0] == 'cell':
                parts.append(ref(t[1][0], t[1][1], hc, hr))
            else:
                c1, r1, c2, r2 = t[1]
                a, b = ref(c1, r1, hc, hr), ref(c2, r2, hc, hr)
                if mode != 'a1' and a.startswith('R[') != b.startswith('R['):
                    a, b = 'R%dC%d' % (r1, c1), 'R%dC%d' % (r2, c2)
                parts.append('%s(%s:%s)' % (t[0], a, b))
        d['%s%d' % (col_name(hc), hr)] = '=' + '+'.join(parts)
    return d


def check_flat(case, ctx):
    import formulas
    sols = {}
    for mode in ('a1', 'r1c1'):
        d = _flat_dict(case, mode)
        try:
            sol = formulas.ExcelModel().from_dict(d).calculate()
        except Exception as ex:
            ctx.violation('flat:raised:%s:%s' % (mode, type(ex).__name__), {
                'case': case, 'observed': '%s: %s' % (type(ex).__name__, str(ex)[:150]),
                'accepted': ['a calculated workbook']})
            return
        sols[mode] = {k: xl.canon(xl.scalar(sol[k])) if k in sol else ('missing',)
                      for k in d}
    ctx.case(('flat', case['id']))
    ctx.count('monitor.flat-twins')
    bad = [k for k in sols['a1'] if not xl.same(sols['a1'][k], sols['r1c1'][k])]
    if bad:
        k = bad[0]
        ctx.violation('flat:r1c1-spelling-differs', {
            'case': case, 'cell': k, 'formula_a1': _flat_dict(case, 'a1')[k],
            'formula_r1c1': _flat_dict(case, 'r1c1')[k],
            'observed': xl.show(sols['r1c1'][k]),
            'accepted': [xl.show(sols['a1'][k]) + ' (same formula spelled in A1 notation)']})


# -- functions do not write into their arguments ------------------------------------
# The array a function receives is the value of the range node it was given: a
# function that overwrites it changes that node after the fact, and the solved
# range no longer equals its member cells (the fixed-point clause).

PURITY_ARRAYS = [
    [[1.0, 'a', True]], [[1.0], ['#N/A!'], [None]], [[1.0, 2.0], [3.0, None]],
    [[None, None, 1.0]], [['b', 'a'], ['c', None]], [[True, False, None]],
    [[3.0, 1.0, 2.0]], [[0.0], [None], ['']], [[2.0, 2.0], [2.0, 2.0]],
]


def check_purity(name, ctx, tb=None):
    from . import c11
    from ..ref import arity
    tb = tb or c11.Table()
    spec = arity.lookup(name)
    if spec in (None, 'missing'):
        return
    import schedula as sh

    def mk(rows):
        a = np.empty((len(rows), len(rows[0])), object)
        for i, row in enumerate(rows):
            for j, x in enumerate(row):
                a[i, j] = sh.EMPTY if x is None else (
                    xl.err('#N/A') if x == '#N/A!' else x)
        return a
    f = tb.F[name]
    pre = []
    if isinstance(f, dict):
        pre = [tb.extra[k] for k in f.get('extra_inputs', {})]
        f = f['function']
    for n in c11.counts_of(spec):
        base = c11.benign_args(spec, n)
        for pos in range(n):
            for rows in PURITY_ARRAYS:
                args = [c11.to_arg(a) for a in base]
                args[pos] = mk(rows)
                before = [xl.canon(a) if isinstance(a, np.ndarray) else None for a in args]
                try:
                    f(*pre, *args)
                except Exception:
                    ctx.count('purity.call-raised')      # totality is C11's clause
                ctx.count('monitor.purity-calls')
                for i, (a, b0) in enumerate(zip(args, before)):
                    if b0 is not None and xl.canon(a) != b0:
                        ctx.violation('argument-modified:%s' % c11._base(name), {
                            'case': {'kind': 'purity', 'name': name},
                            'call': '%s(...)' % name, 'position': i,
                            'observed': xl.show(xl.canon(a)),
                            'accepted': [xl.show(b0) + ' (the array as passed in)']})
    ctx.case(('purity', name))


def variants(i, with_xlsx):
    import random
    out = [('dict/identity', None), ('dict/reversed', lambda it: it[::-1])]
    for j in range(3):
        def perm(it, j=j):
            it = list(it)
            random.Random('perm/%s/%s' % (i, j)).shuffle(it)
            return it
        out.append(('dict/perm%d' % j, perm))
    out.append(('dict/respelled', 'spell'))
    if with_xlsx:
        out.append(('xlsx/respelled', 'spell'))
        for so in (0, 1):
            for bo in (0, 1):
                out.append(('xlsx/s%d/b%d' % (so, bo), (so, bo)))
        out.append(('ondemand/first-book-only', 0))
        out.append(('ondemand/last-book-only', -1))
    return out


def run_variant(desc, label, arg, scratch):
    if arg == 'spell':
        # the same workbook with every reference occurrence respelled
        # ($ markers, case, reversed corners, own-sheet qualification, ...)
        desc = dict(desc, spelling=label)
        if label.startswith('dict/'):
            m = wbrun.load_dict(desc)
        else:
            m, _ = wbrun.load_xlsx(desc, os.path.join(scratch, 'x'))
    elif label.startswith('dict/'):
        m = wbrun.load_dict(desc, arg)
    elif label.startswith('ondemand'):
        # only the first book is loaded; finish() completes the model with
        # whatever the loaded formulas reach in the other books
        m, _ = wbrun.load_xlsx(desc, os.path.join(scratch, 'x'),
                               book_order=lambda p: [p[arg]])
    else:
        so, bo = arg
        m, _ = wbrun.load_xlsx(
            desc, os.path.join(scratch, 'x'),
            sheet_order=(lambda idx: idx[::-1]) if so else None,
            book_order=(lambda p: p[::-1]) if bo else None)
    EvalOrder.seq = []
    sol = m.calculate()
    order = _seq_hash(EvalOrder.seq)
    return m, sol, order


def check_desc(desc, i, ctx, with_xlsx=True, fp_every=1):
    EvalOrder.install()
    scratch = worker.scratch_dir()
    hs = os.environ.get('PYTHONHASHSEED', '0')
    first = None
    ev = rw.Evaluator(desc)
    for f in wbrun.forms_of(desc):
        ctx.count('form.' + f)
    for label, arg in variants(i, with_xlsx):
        case = {'kind': 'desc', 'index': i, 'variant': label, 'hashseed': hs,
                'desc': desc}
        ctx.open_case({'kind': 'desc', 'index': i, 'variant': label})
        ctx.case((i, label, hs))
        try:
            m, sol, order = run_variant(desc, label, arg, scratch)
        except Exception as ex:
            ctx.violation('load-or-calc-raised:%s:%s' % (
                type(ex).__name__, label.split('/')[0]), {
                'case': case, 'observed': '%s: %s' % (
                    type(ex).__name__, str(ex)[:200]),
                'accepted': ['a calculated workbook']})
            continue
        ctx.count('variant.' + label.split('/')[0])
        ctx.see('eval_order', '%s:%s' % (i, order))
        obs = wbrun.solution_cells(desc, sol)
        if label.startswith('ondemand'):
            # a partial model: every cell it contains must agree with the
            # full model (cells it did not need are absent)
            ctx.count('variant.ondemand')
            # cells reached through a spill cell of an array formula in a book
            # that is only loaded on demand belong to C15 (anchor not pulled
            # in); they are left out here
            loaded = arg % len(desc['books'])
            if len(desc['books']) == 1 and arg == -1:
                continue
            tainted = set()      # (spill cells were excluded until fix d9d63f7)
            needed = wbrun.upstream(desc, [k for k in obs if k[0] == loaded])
            bad = [k for k, v in obs.items() if v != ('missing',)
                   and k not in tainted and k in needed
                   and first and not xl.same(v, first[2].get(k, ('missing',)))]
            if bad:
                ctx.violation('order-dependent:ondemand-vs-%s' % first[1].split('/')[0], {
                    'case': case, 'cells': [gw.key_of(desc, *k) for k in bad[:5]],
                    'observed': [xl.show(obs[k]) for k in bad[:5]],
                    'accepted': [[xl.show(first[2].get(k)) for k in bad[:5]]]})
            continue
        dg = wbrun.digest(obs)
        ctx.see('digest', '%s:%s' % (i, dg))
        if first is None:
            first = (dg, label, obs)
            wbrun.compare_with_reference(desc, obs, ctx, 'reference', case, ref=ev)
            fixed_point(m, sol, ctx, case)
        else:
            if dg != first[0]:
                diff = [gw.key_of(desc, *k) for k in obs
                        if obs[k] != first[2].get(k)][:5]
                ctx.violation('order-dependent:%s-vs-%s' % (
                    first[1].split('/')[0], label.split('/')[0]), {
                    'case': case, 'other_variant': first[1], 'cells': diff,
                    'observed': [xl.show(obs[k]) for k in list(obs)
                                 if obs[k] != first[2].get(k)][:5],
                    'accepted': ['same solution as variant %s' % first[1]]})
                wbrun.compare_with_reference(desc, obs, ctx, 'reference', case, ref=ev)
            if label.startswith('xlsx') and label.endswith('s0/b0'):
                fixed_point(m, sol, ctx, case)
    return first


def check_fixture(name, ctx):
    """Fixed-point invariant on a repository fixture (read-only)."""
    import formulas
    from .. import bootstrap
    path = os.path.join(bootstrap.REPO, 'test', 'test_files', name)
    EvalOrder.install()
    m = formulas.ExcelModel().loads(path).finish()
    sol = m.calculate()
    case = {'kind': 'fixture', 'name': name}
    ctx.case(('fixture', name))
    fixed_point(m, sol, ctx, case)
    ctx.count('fixture.' + name)


def plan(tier, seed):
    nd = 48 if tier == 'quick' else 480
    seeds = (0, 1, 2, 3) if tier == 'quick' else tuple(range(8))
    per = 12 if tier == 'quick' else 40
    specs = []
    for h in seeds:
        for lo in range(0, nd, per):
            # every description runs under every hash seed (dict variants);
            # the xlsx variants under two of them
            specs.append({'kind': 'descs', 'lo': lo, 'hi': min(nd, lo + per),
                          'hashseed': h, 'xlsx': h in (0, 1), 'timeout': 1500})
    specs.append({'kind': 'fixture', 'name': 'excel.xlsx', 'timeout': 900})
    for part in range(4):
        specs.append({'kind': 'purity', 'part': part, 'parts': 4, 'timeout': 900})
    nf = 300 if tier == 'quick' else 6000
    for lo in range(0, nf, 150):
        specs.append({'kind': 'flat', 'lo': lo, 'hi': lo + 150})
    if tier == 'thorough':
        specs.append({'kind': 'fixture', 'name': 'test.xlsx', 'timeout': 3000})
    return specs


def check_case(case, ctx):
    if case['kind'] == 'fixture':
        check_fixture(case['name'], ctx)
    elif case['kind'] == 'flat':
        check_flat(case, ctx)
    elif case['kind'] == 'purity':
        check_purity(case['name'], ctx)
    else:
        check_desc(case['desc'], case.get('index', 0), ctx)


def run(spec, ctx):
    if spec['kind'] == 'fixture':
        check_fixture(spec['name'], ctx)
        return
    if spec['kind'] == 'purity':
        from . import c11
        tb = c11.Table()
        names = sorted(tb.F)
        for name in names[spec['part']::spec['parts']]:
            ctx.open_case({'kind': 'purity', 'name': name})
            check_purity(name, ctx, tb)
        ctx.sample({'functions checked for argument modification': len(
            names[spec['part']::spec['parts']])})
        return
    if spec['kind'] == 'flat':
        for i in range(spec['lo'], spec['hi']):
            case = make_flat_case(spec['seed'], i)
            check_flat(case, ctx)
        ctx.sample({'r1c1 rendering': dict(list(_flat_dict(case, 'r1c1').items())[-4:])})
        return
    for i in range(spec['lo'], spec['hi']):
        desc = make_desc(spec['seed'], i, spec['tier'])
        check_desc(desc, i, ctx, with_xlsx=spec['xlsx'])
    ctx.sample({'description_index': i,
                'cells': dict(list(gw.to_dict(desc).items())[:12])})


def finalize(agg, tier):
    inc, viols = [], []
    c = agg['counters']
    by = {}
    for item in agg['sets'].get('digest', ()):
        i, dg = item.split(':')
        by.setdefault(i, set()).add(dg)
    bad = sorted(i for i, s in by.items() if len(s) > 1)
    for i in bad[:5]:
        viols.append({'sig': 'order-dependent:across-processes', 'count': 1,
                      'witness': {'case': {'kind': 'desc-index', 'index': int(i)},
                                  'observed': sorted(by[i]),
                                  'accepted': ['one solution for all hash '
                                               'seeds / orders / load paths']}})
    orders = {}
    for item in agg['sets'].get('eval_order', ()):
        i, o = item.split(':')
        orders.setdefault(i, set()).add(o)
    multi = sum(1 for s in orders.values() if len(s) > 1)
    hs = {o['spec'].get('hashseed') for o in agg['outs'] if o['spec'].get('kind') == 'descs'}
    if len(hs) < 4:
        inc.append('hash seeds exercised: %d < 4' % len(hs))
    for f in ('cell', 'rng', 'row', 'name', 'array-formula', 'cross-sheet', 'cross-book'):
        if c.get('form.' + f, 0) < 5:
            inc.append('reference form %s seen %d < 5 times' % (f, c.get('form.' + f, 0)))
    for k, floor in (('ref.cells-compared', 1000), ('fixedpoint.cells', 500),
                     ('variant.dict', 200), ('variant.xlsx', 50)):
        if c.get(k, 0) < floor:
            inc.append('monitor %s saw %d events (< %d)' % (k, c.get(k, 0), floor))
    return {'inconclusive': inc, 'violations': viols, 'coverage': {
        'hash_seeds': sorted(h for h in hs if h is not None),
        'descriptions': len(by),
        'descriptions_with_several_evaluation_orders': multi,
        'distinct_evaluation_orders_total': sum(len(s) for s in orders.values())}}
