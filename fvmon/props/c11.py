"""C11 - worksheet functions are total and never lose an error value.

Monitor on every entry of the function table: called with every admissible
argument count (hand-written Excel arity table) and with hostile values of
every kind at every position - directly and through Cell formulas - a function
must not raise, must return Excel values only, and must not turn a consumed
error argument into a non-error result (exempt table for error-handling /
inspection functions and non-selected positions).
"""
import numpy as np
import schedula as sh

from .. import xl
from ..ref import arity

ID = 'C11'
LEVEL = 'exploration'
RULE = ('a case is (function name, argument tuple, path); for each of the 247 '
        'table names: benign tuples of every admissible count, every hostile '
        'value (numbers incl. huge/tiny/negative, text incl. numeric/empty/'
        'date-like, logicals, blank, 4 error kinds, 1x1 / row / column / 2x2 / '
        '3x3 arrays with errors and blanks) substituted at every position, '
        'random all-hostile tuples, and an error at every position for the '
        'error-propagation clause; paths: direct table call and Cell formula; '
        'distinct = distinct (name, arguments, path); non-trivial = the call '
        'was made and its outcome inspected')
ASSUMPTIONS = [
    'admissible counts come from fvmon/ref/arity.py (Excel reference), '
    'variadic functions are driven up to min+3 arguments',
    'magnitudes 1e10 / 1e308 / 1e-300 are driven in forked children under a '
    '3 GB address-space limit and a 6 s watchdog (thorough: every function; '
    'quick: every 6th); a child that does not return is reported',
    'error propagation is judged only for scalar error arguments placed in an '
    'otherwise benign call; exempt: IFERROR/IFNA, the IS... family, COUNT*, '
    'ROW/COLUMN, non-selected branches of IF/IFS/SWITCH, table arguments of '
    'lookup functions, FILTER, criteria ranges, T, N/A-free functions',
]
E = xl.err

HOSTILE = [
    0.0, -1.0, 2.5, 1234567.0, 1e-5, -3.7, 255.0, 40000.0,
    'abc', '', '12', ' x ', '2020-01-01', 'TRUE', '#N/A',
    '\u4e2d\u6587', '\u0416x', 'a\nb', 171.0, 300.0,
    '1/1/99999', '10000-01-01', '31/12/1899', '1e400', 1e308, -1e308,
    True, False, sh.EMPTY,
    E('#N/A'), E('#DIV/0!'), E('#VALUE!'), E('#REF!'),
    [[5.0]], [[1.0, 'a', True]], [[1.0], [E('#N/A')], [sh.EMPTY]],
    [[1.0, 2.0], [3.0, sh.EMPTY]], [[1.0, 2.0, 3.0], [4.0, 5.0, 6.0], [7.0, 8.0, 9.0]],
    [['a', 'b'], ['c', E('#DIV/0!')]],
    [[1e308, 1e308]], [[-1e308], [-1e308]],
]

# (function, argument position) pairs whose error argument need not surface
EXEMPT_FUNCS = {
    'IFERROR', 'IFNA', 'ISBLANK', 'ISERR', 'ISERROR', 'ISLOGICAL', 'ISNA',
    'ISNONTEXT', 'ISNUMBER', 'ISTEXT', 'COUNT', 'COUNTA', 'COUNTBLANK',
    'COUNTIF', 'ROW', 'COLUMN', 'FILTER', 'SUMIF', 'AVERAGEIF', 'DUMMYFUNCTION',
    'ARRAY', 'ARRAYROW',
    'SINGLE',
}
LOOKUPS = ('INDEX', 'MATCH', 'LOOKUP', 'VLOOKUP', 'HLOOKUP')
EXEMPT_POS = {('IF', 1): 'cond', ('IF', 2): 'cond', ('IFS', None): 'sel',
              ('SWITCH', None): 'sel'}


def to_arg(v):
    if isinstance(v, list):
        a = np.empty((len(v), len(v[0])), object)
        for i, row in enumerate(v):
            for j, x in enumerate(row):
                a[i, j] = x
        return a
    return v


def show_arg(v):
    if isinstance(v, (list, np.ndarray)):
        return xl.show(xl.canon(to_arg(v) if isinstance(v, list) else v))
    return xl.show(xl.canon(v))


def kind_of(v):
    if isinstance(v, (list, np.ndarray)):
        a = to_arg(v) if isinstance(v, list) else v
        has_err = any(xl.kind(x) == 'err' for x in a.ravel().tolist())
        return 'array%s%s' % ('%dx%d' % a.shape, '+err' if has_err else '')
    k = xl.kind(v)
    if k == 'num':
        f = float(v)
        return 'num' if 1e-3 <= abs(f) < 1e9 or f == 0 else 'num-extreme'
    if k == 'text':
        if v == '':
            return 'text-empty'
        try:
            float(v)
            return 'text-num'
        except ValueError:
            return 'text'
    return k


def enc(v):
    if isinstance(v, np.ndarray):
        v = v.tolist()
    if isinstance(v, list):
        return {'arr': [[enc(x) for x in row] for row in v]}
    if v is sh.EMPTY:
        return {'blank': 1}
    if xl.kind(v) == 'err':
        return {'err': str(v)}
    if isinstance(v, bool):
        return {'bool': v}
    return v


def dec(v):
    if isinstance(v, dict):
        if 'arr' in v:
            return [[dec(x) for x in row] for row in v['arr']]
        if 'blank' in v:
            return sh.EMPTY
        if 'err' in v:
            return E(v['err'])
        if 'bool' in v:
            return v['bool']
    return v


class Table:
    def __init__(self):
        import formulas
        from formulas.cell import CELL
        from formulas.functions import COMPILING
        from formulas.ranges import Ranges
        self.F = formulas.get_functions()
        self.extra = {CELL: Ranges().push('A1'), COMPILING: False}
        self.Ranges = Ranges

    def call(self, name, args):
        f = self.F[name]
        pre = []
        if isinstance(f, dict):
            for k in f.get('extra_inputs', {}):
                pre.append(self.extra[k])
            f = f['function']
        return f(*pre, *[to_arg(a) for a in args])


def has_error(res):
    v = xl.unwrap(res)
    it = v.ravel().tolist() if isinstance(v, np.ndarray) else [v]
    return any(xl.kind(xl.unwrap(x)) == 'err' for x in it)


def judge(ctx, name, args, run, path, expect_error=False, pos=None):
    case = {'kind': 'call', 'name': name, 'args': [enc(a) for a in args], 'path': path}
    ctx.case((name, [show_arg(a) for a in args], path))
    ctx.count('call.' + path)
    hk = kind_of(args[pos]) if pos is not None and pos < len(args) else 'benign'
    w = {'case': case, 'call': '%s(%s)' % (name, ', '.join(show_arg(a) for a in args))}
    try:
        res = run()
    except Exception as ex:
        inner = getattr(ex, 'ex', None)
        tname = type(ex).__name__
        if inner is not None and type(inner).__name__ == 'BroadcastError':
            tname = 'BroadcastError'
        shapes = sorted({tuple(to_arg(a).shape) for a in args if isinstance(a, (list, np.ndarray))})
        ctx.violation('raised:%s:%s:%s:%s' % (_base(name), tname, hk, path), dict(
            w, observed='%s: %s' % (tname, str(ex)[:120]),
            accepted=['an Excel value'], array_shapes=[list(x) for x in shapes]))
        return
    if not xl.wellformed(res):
        bad = xl.foreign_elements(res)
        ctx.violation('foreign:%s:%s:%s' % (_base(name), _fk(bad), hk), dict(
            w, observed=repr(bad[:3])[:150], accepted=['Excel values only']))
        return
    if expect_error:
        ctx.count('monitor.error-propagation')
        if not has_error(res):
            ctx.violation('error-lost:%s:pos%d:%s' % (_base(name), pos, path), dict(
                w, observed=xl.show(xl.canon(xl.unwrap(res)))[:120],
                accepted=['an error value']))


_RAISED = object()


def _quiet(run):
    try:
        return run()
    except Exception:
        return _RAISED          # raising is judged by the sweep above


def _is_value_error(r):
    if r is _RAISED:
        return False
    c = xl.canon(xl.unwrap(r))
    return c == xl.c_err('#VALUE!')


def _fk(bad):
    if not bad:
        return 'structure'
    x = xl.unwrap(bad[0])
    if x is None:
        return 'None'
    if isinstance(x, float):
        return 'nan' if x != x else 'inf'
    if isinstance(x, complex):
        return 'complex'
    return type(x).__name__


def _base(name):
    n = name.upper()
    for pre in ('_XLFN._XLWS.', '_XLFN.', '__XLUDF.'):
        if n.startswith(pre):
            n = n[len(pre):]
    return n


def counts_of(spec):
    lo, hi, benign = spec
    if hi is None:
        hi = lo + 3
    return range(lo, hi + 1)


def benign_args(spec, n):
    lo, hi, benign = spec
    out = list(benign[:n])
    while len(out) < n:
        out.append(benign[-1] if benign else 1.0)
    if len(benign) > n and spec[1] is None:
        pass
    return out


def exempt(name, pos, args):
    b = _base(name)
    if b in LOOKUPS:
        # an error among the elements of a table need not surface (only the
        # scanned / selected ones do); an error given in place of an argument must
        return isinstance(args[pos], list)
    if b in EXEMPT_FUNCS or b.startswith('IS') and b not in ('ISEVEN', 'ISODD', 'ISOWEEKNUM', 'ISO.CEILING'):
        return True
    if b == 'IF':
        return pos == 2 or (pos == 1 and False)   # benign cond is TRUE: pos 1 consumed
    if b == 'IFS':
        return pos not in (0, 2, 3)               # F,1,T,2: cond0, cond1, value1
    if b == 'SWITCH':
        return pos not in (0, 1, 3, 4)            # 2,1,'a',2,'b': keys and hit
    if b in ('AND', 'OR', 'XOR', 'TEXTJOIN', 'CONCAT', 'T', 'N'):
        return False
    return False


def run_name(name, ctx, tb, rng, cell_sample):
    import time
    t0 = time.time()
    try:
        _run_name(name, ctx, tb, rng, cell_sample)
    finally:
        ctx.maximum('slowest_function_s_x10', int(10 * (time.time() - t0)))
        if time.time() - t0 > 20:
            ctx.see('slow_functions', '%s:%ds' % (name, time.time() - t0))


def _run_name(name, ctx, tb, rng, cell_sample):
    spec = arity.lookup(name)
    if spec == 'missing':
        ctx.note_inconclusive('no arity entry for %s' % name)
        return
    if spec is None:
        return
    ctx.see('functions', _base(name))
    for n in counts_of(spec):
        ctx.see('arity', '%s/%d' % (_base(name), n))
        base = benign_args(spec, n)
        judge(ctx, name, base, lambda: tb.call(name, base), 'direct')
        for pos in range(n):
            for h in HOSTILE:
                args = list(base)
                args[pos] = h
                ctx.open_case({'name': name, 'pos': pos})
                is_err = not isinstance(h, list) and xl.kind(h) == 'err'
                judge(ctx, name, args, lambda a=args: tb.call(name, a), 'direct',
                      expect_error=is_err and not exempt(name, pos, args), pos=pos)
        # wrong types give #VALUE!: a text only python reads as a number
        # ("1_0", "1_000.5") is as wrong as "abc" - twin calls, no type model
        for pos in range(n):
            twin = list(base)
            twin[pos] = 'abc'
            r_abc = _quiet(lambda a=twin: tb.call(name, a))
            if not _is_value_error(r_abc):
                continue
            for txt in ('1_0', '1_000.5'):
                args = list(base)
                args[pos] = txt
                ctx.open_case({'name': name, 'pos': pos, 'text': txt})
                ctx.count('monitor.python-only-numeral')
                r = _quiet(lambda a=args: tb.call(name, a))
                if r is not _RAISED and not has_error(r):
                    ctx.violation('pytext-accepted:%s:pos%d' % (_base(name), pos), {
                        'case': {'kind': 'call', 'name': name, 'path': 'direct',
                                 'args': [enc(a) for a in args]},
                        'call': '%s(%s)' % (name, ', '.join(show_arg(a) for a in args)),
                        'observed': xl.show(xl.canon(xl.unwrap(r)))[:120],
                        'accepted': ['#VALUE! (as for "abc" in that position)'],
                        'function': _base(name), 'text': txt})
        # an error next to the text that spells it (an error value is a str
        # subclass: comparing the two must not make the error disappear)
        for pos in range(1, n):
            for e_ in ('#N/A', '#DIV/0!'):
                args = list(base)
                args[0], args[pos] = e_, E(e_)
                if exempt(name, pos, args) or _base(name) in ('IF', 'IFS', 'CHOOSE') or (
                        _base(name) == 'SWITCH' and pos != 1):
                    continue
                ctx.open_case({'name': name, 'pos': pos, 'spelled': e_})
                ctx.count('monitor.error-beside-its-spelling')
                judge(ctx, name, args, lambda a=args: tb.call(name, a), 'direct',
                      expect_error=True, pos=pos)
        # a second benign base: numbers negated (other branches of the
        # functions, e.g. two's complement in DEC2BIN); an error argument must
        # surface there as well
        alt = [-a if isinstance(a, (int, float)) and not isinstance(a, bool) and a else a
               for a in base]
        if alt != base:
            for pos in range(n):
                for h in (E('#N/A'), E('#DIV/0!')):
                    args = list(alt)
                    args[pos] = h
                    ctx.open_case({'name': name, 'pos': pos, 'base': 'negated'})
                    ctx.count('monitor.negated-base')
                    judge(ctx, name, args, lambda a=args: tb.call(name, a), 'direct',
                          expect_error=not exempt(name, pos, args), pos=pos)
        # an error in one array opposite a blank in another one (functions
        # that drop incomplete pairs must look for errors first)
        for p_ in range(min(n, 3)):
            for q_ in range(min(n, 3)):
                if p_ == q_:
                    continue
                for col in (True, False):
                    a1 = [1.0, E('#DIV/0!'), 3.0, 6.0]
                    a2 = [2.0, sh.EMPTY, 5.0, 4.0]
                    args = list(base)
                    args[p_] = [[x] for x in a1] if col else [a1]
                    args[q_] = [[x] for x in a2] if col else [a2]
                    ctx.open_case({'name': name, 'pos': p_, 'opposite': q_})
                    ctx.count('monitor.error-opposite-blank')
                    judge(ctx, name, args, lambda a=args: tb.call(name, a), 'direct',
                          expect_error=not exempt(name, p_, args) and _base(name) not in (
                              'IF', 'IFS', 'SWITCH', 'CHOOSE'), pos=p_)  # selectors changed
        for _ in range(6):
            args = [rng.choice(HOSTILE) for _ in range(n)]
            judge(ctx, name, args, lambda a=args: tb.call(name, a), 'direct',
                  pos=0)
    if cell_sample:
        run_cell_path(name, spec, ctx, rng)


def run_cell_path(name, spec, ctx, rng):
    """The same through Cell formulas: a function that raises there aborts
    the loading of any model that contains it."""
    from formulas.cell import Cell
    for n in counts_of(spec):
        base = benign_args(spec, n)
        picks = [(None, None)] + [(rng.randrange(n), rng.choice(HOSTILE))
                                  for _ in range(4)] if n else [(None, None)]
        for pos, h in picks:
            args = list(base)
            if pos is not None:
                args[pos] = h
            refs, inputs, r = [], {}, 2
            for a in args:
                if isinstance(a, list) and (len(a), len(a[0])) != (1, 1):
                    rows, cols = len(a), len(a[0])
                    ref = 'B%d:%s%d' % (r, 'BCDE'[cols - 1], r + rows - 1)
                    inputs[ref] = to_arg(a)
                    r += rows
                elif isinstance(a, list):
                    ref = 'B%d' % r
                    inputs[ref] = a[0][0]
                    r += 1
                else:
                    ref = 'B%d' % r
                    inputs[ref] = [[sh.EMPTY]] if a is sh.EMPTY else a
                    r += 1
                refs.append(ref)
            formula = '=%s(%s)' % (name, ','.join(refs))

            def run(formula=formula, inputs=inputs):
                d = sh.Dispatcher()
                c = Cell('A1', formula).compile()
                c.add(d)
                sol = d(inputs)
                return sol[c.output]
            is_err = pos is not None and not isinstance(h, list) and xl.kind(h) == 'err'
            judge(ctx, name, args, run, 'cell',
                  expect_error=is_err and not exempt(name, pos, args), pos=pos)


EXTREME = [1e10, -1e10, 1e308, 1e-300]


def forked_call(fn, timeout=6.0, mem=3 << 30):
    """Run fn() in a forked child under an address-space limit; -> 'ok',
    'raised:<T>', 'foreign', 'timeout' or 'killed'.  Wall-clock is used only to
    stop a runaway child; what is judged is that the call *returns*."""
    import os
    import select
    import signal
    import resource
    r, wfd = os.pipe()
    pid = os.fork()
    if pid == 0:
        try:
            os.close(r)
            resource.setrlimit(resource.RLIMIT_AS, (mem, mem))
            try:
                res = fn()
                msg = 'ok' if xl.wellformed(res) else 'foreign'
            except MemoryError:
                msg = 'raised:MemoryError'
            except BaseException as ex:
                msg = 'raised:' + type(ex).__name__
            os.write(wfd, msg.encode())
        finally:
            os._exit(0)
    os.close(wfd)
    ready, _, _ = select.select([r], [], [], timeout)
    if ready:
        out = os.read(r, 200).decode() or 'killed'
    else:
        out = 'timeout'
        os.kill(pid, signal.SIGKILL)
    os.close(r)
    os.waitpid(pid, 0)
    return out


def run_extremes(names, ctx, tb):
    for name in names:
        spec = arity.lookup(name)
        if not spec or spec == 'missing':
            continue
        n = spec[1] if spec[1] is not None else spec[0] + 1
        base = benign_args(spec, n)
        for pos in range(n):
            for h in EXTREME:
                args = list(base)
                args[pos] = h
                ctx.case((name, [show_arg(a) for a in args], 'extreme'))
                ctx.count('call.extreme')
                out = forked_call(lambda a=args: tb.call(name, a))
                if out != 'ok':
                    ctx.violation('extreme:%s:%s:pos%d' % (_base(name), out, pos), {
                        'case': {'kind': 'extreme', 'name': name,
                                 'args': [enc(a) for a in args]},
                        'call': '%s(%s)' % (name, ', '.join(show_arg(a) for a in args)),
                        'observed': out, 'accepted': ['returns an Excel value']})


def plan(tier, seed):
    import formulas
    n = 14 if tier == 'quick' else 28
    specs = [{'kind': 'names', 'part': i, 'parts': n,
              'cells': True} for i in range(n)]
    m = 16 if tier == 'thorough' else 2
    step = 1 if tier == 'thorough' else 6
    for i in range(m):
        specs.append({'kind': 'extremes', 'part': i, 'parts': m, 'step': step,
                      'offset': seed % step})
    return specs


def check_case(case, ctx):
    tb = Table()
    args = [dec(a) for a in case['args']]
    if case['kind'] == 'extreme':
        out = forked_call(lambda: tb.call(case['name'], args))
        ctx.sample({'outcome': out})
        if out != 'ok':
            ctx.violation('extreme:%s:%s:pos?' % (_base(case['name']), out), {
                'case': case, 'observed': out, 'accepted': ['returns']})
        return
    judge(ctx, case['name'], args, lambda: tb.call(case['name'], args), 'direct', pos=0)


def run(spec, ctx):
    import resource
    # a hostile count (MUNIT(40000)) must surface as MemoryError -> #VALUE!
    # inside the library, not as the shard being killed by the OOM killer
    resource.setrlimit(resource.RLIMIT_AS, (6 << 30, 6 << 30))
    tb = Table()
    names = sorted(tb.F)
    if spec['kind'] == 'extremes':
        sel = names[spec['offset']::spec['step']][spec['part']::spec['parts']]
        run_extremes(sel, ctx, tb)
        return
    for name in names[spec['part']::spec['parts']]:
        run_name(name, ctx, tb, ctx.rng, spec['cells'])
    ctx.sample({'function': name, 'benign': str(arity.lookup(name))[:120]})


def finalize(agg, tier):
    c, inc = agg['counters'], []
    fn = agg['sets'].get('functions', ())
    if len(fn) < 185:
        inc.append('distinct functions exercised: %d < 185' % len(fn))
    for k, floor in (('call.direct', 25000), ('call.cell', 1500),
                     ('monitor.error-propagation', 2000)):
        if c.get(k, 0) < floor:
            inc.append('monitor %s saw %d events (< %d)' % (k, c.get(k, 0), floor))
    return {'inconclusive': inc, 'coverage': {
        'functions_exercised': len(fn),
        'function_arity_pairs': len(agg['sets'].get('arity', ()))}}
