"""C06 - reference operators follow cell-set semantics, values included.

Contracts on the live Ranges operations (probes.install_ranges_contracts)
judge every & | + - simplify and .value executed by the workloads below:
exhaustive rectangle pairs of a small grid, random multi-area operands,
whole-row/column operands, operands on other sheets, and formula-level models.
"""
import itertools
import numpy as np
import schedula as sh

from .. import xl, probes
from ..ref import ranges as rr

ID = 'C06'
LEVEL = 'exploration'
RULE = ('direct cases: ordered pairs of rectangles of an NxN grid (N=4 quick, '
        '5 thorough; exhaustive), each with unique and with mixed-kind cell '
        'contents, plus random multi-area / whole-row / whole-column / '
        'other-sheet operands; on each pair & | : - simplify and .value run '
        'under cell-set contracts; formula cases: SUM/COUNT of (a b), (a,b), '
        'a:b in from_dict models with base-k cell values that identify the '
        'covered multiset; distinct = distinct (operands, contents) case; '
        'non-trivial = at least one contract evaluated on it')
ASSUMPTIONS = [
    'multi-area intersection is the multiset of pairwise area intersections',
    'values of a:b are judged only on cells covered by an operand in direct '
    'calls (the others are unknown there) and on all cells at formula level',
    '.value is judged only when the pushed pieces determine every cell',
    'whole-column .value (1M-row arrays) is exercised only in thorough',
]
MIXED = [3.5, 'tx', True, 0, '', -2, False]


def _grid_rects(n, sheet=''):
    out = []
    for c1 in range(1, n + 1):
        for c2 in range(c1, n + 1):
            for r1 in range(1, n + 1):
                for r2 in range(r1, n + 1):
                    out.append([sheet, c1, r1, c2, r2])
    return out


def _cell_content(content, s, c, r):
    if content == 'mixed':
        k = (c + 3 * r) % 9
        if k < len(MIXED):
            return MIXED[k]
        if k == 7:
            return xl.err('#N/A')
    return (1 if s else 0) * 10000 + c * 100 + r


def _mk(areas, content):
    from formulas.ranges import Ranges
    x = Ranges()
    for a in areas:
        a = tuple(a)
        name = rr.spell(a)
        if content is None:
            x.push(name)
        else:
            s, c1, r1, c2, r2 = a
            val = np.empty((r2 - r1 + 1, c2 - c1 + 1), object)
            for r in range(r1, r2 + 1):
                for c in range(c1, c2 + 1):
                    val[r - r1, c - c1] = _cell_content(content, s, c, r)
            x.push(name, val)
    return x


def check_pair(case, ctx, sink):
    from formulas.errors import InvalidRangeError
    a_r = [tuple(x) for x in case['a']]
    b_r = [tuple(x) for x in case['b']]
    content = case.get('content')
    sink.case = case
    a, b = _mk(a_r, content), _mk(b_r, content)
    ctx.see('relation', probes._shape_class(a_r, b_r))
    i = a & b
    u = a | b
    d = a - b
    d2 = b - a
    try:
        bb = a + b
    except InvalidRangeError:
        bb = None
    span = max(r[3] for r in a_r + b_r) - min(r[1] for r in a_r + b_r)
    todo = (u, a) if len(a_r) > 1 else (u,)
    if span > 64 and not case.get('simplify_wide'):
        todo = ()   # simplify enumerates columns: ~2 s per whole-row operand
    for x in todo:
        try:
            x.simplify()
        except Exception as ex:
            ctx.violation('ranges.simplify:raised:%s:%s' % (
                type(ex).__name__, 'wide' if content is None else 'grid'), {
                'case': case, 'observed': repr(ex)[:200],
                'accepted': ['a simplified reference']})
    if content is not None:
        for x in (i, u, d, d2):
            try:
                x.value
            except Exception as ex:  # .value must not raise here
                ctx.violation('ranges.value:raised:%s' % type(ex).__name__, {
                    'case': case, 'observed': repr(ex)[:200],
                    'accepted': ['a value']})
        if bb is not None:
            _check_add_values(case, a_r + b_r, bb, content, ctx)
    ctx.case((case['a'], case['b'], content))


def _check_add_values(case, operands, bb, content, ctx):
    rect = rr.rects_of(bb)
    if len(rect) != 1:
        return
    s, c1, r1, c2, r2 = rect[0]
    if (c2 - c1 + 1) * (r2 - r1 + 1) > 4096:
        return
    val = bb.value
    ctx.count('monitor.add-values')
    for (ps, pc1, pr1, pc2, pr2) in operands:
        for r in range(pr1, pr2 + 1):
            for c in range(pc1, pc2 + 1):
                want = xl.canon(_cell_content(content, ps, c, r))
                try:
                    got = xl.canon(val[r - r1, c - c1])
                except IndexError:
                    got = ('foreign', 'index')
                if got != want:
                    ctx.violation('ranges.add:value', {
                        'case': case, 'cell': rr.spell((ps, c, r, c, r)),
                        'observed': xl.show(got), 'accepted': [xl.show(want)]})
                    return


# -- formula level ----------------------------------------------------------

def _cells_for_model(n, base, variant, two_sheets=False):
    """grid contents: cell -> python value; numeric cells carry base**k."""
    cells, k = {}, 0
    sheets = ['S1', 'S2'] if two_sheets else ['S1']
    for s in sheets:
        for r in range(1, n + 1):
            for c in range(1, n + 1):
                sel = (c * 7 + r * 3 + variant) % 11
                if variant and sel == 0:
                    cells[(s, c, r)] = 'txt'       # text: skipped by SUM
                elif variant and sel == 1:
                    pass                            # unpopulated: blank
                elif variant and sel == 2:
                    cells[(s, c, r)] = True         # logical in a range: skipped
                else:
                    cells[(s, c, r)] = float(base ** k)
                k += 1
    return cells


def _qual(sheet, rect, force_range=False):
    ref = rr.spell(('',) + tuple(rect[1:]))
    if force_range and ':' not in ref:
        ref = '%s:%s' % (ref, ref)
    return ref if sheet == 'S1' else '%s!%s' % (sheet, ref)


def _key(s, c, r):
    ref = '%s%d' % (rr.col_name(c), r)
    return ref if s == 'S1' else '%s!%s' % (s, ref)


def check_formulas(case, ctx, sink):
    """case: {'n','base','variant','items':[{'op','a':[rects],'b':[rects]}]}"""
    import formulas
    sink.case = case
    n, base = case['n'], case['base']
    two = any(r[0] == 'S2' for it in case['items'] for r in it['a'] + it['b'])
    if two and base ** (2 * n * n) >= 2 ** 52:
        base = 2        # two sheets: powers of 3 would not sum exactly in a double
    cells = _cells_for_model(n, base, case.get('variant', 0), two)
    d = {}
    for (s, c, r), v in cells.items():
        d[_key(s, c, r)] = v
    exp, alt = {}, {}

    def spell_operand(areas, force_range=False):
        parts = [_qual(r[0] or 'S1', r, force_range) for r in areas]
        return parts[0] if len(parts) == 1 else '(%s)' % ','.join(parts)

    for j, it in enumerate(case['items']):
        a = [(r[0] or 'S1',) + tuple(r[1:]) for r in it['a']]
        b = [(r[0] or 'S1',) + tuple(r[1:]) for r in it['b']]
        op = it['op']
        sa, sb = spell_operand(a, op == 'add'), spell_operand(b, op == 'add')
        if op == 'and':
            txt, areas = '%s %s' % (sa, sb), rr.ref_and(a, b)
            if not areas:
                areas = None
                err = '#NULL!'
        elif op == 'or':
            txt, areas = '(%s,%s)' % (sa, sb), a + b
        else:
            txt = '%s:%s' % (sa, sb)
            bb = rr.bounding(a + b)
            areas, err = ([bb] if bb else None), 'error'
        key = '%s%d' % (rr.col_name(n + 3), j + 1)
        key2 = '%s%d' % (rr.col_name(n + 4), j + 1)
        d[key] = '=SUM(%s)' % txt
        d[key2] = '=COUNT(%s)' % txt
        def total(areas_):
            tot, cnt = 0.0, 0
            for ar in areas_:
                for cell in rr.cells(ar):
                    v = cells.get(cell)
                    if isinstance(v, float):
                        tot += v
                        cnt += 1
            return tot, float(cnt)

        alt[key], alt[key2] = total(a + b)
        if areas is None:
            exp[key] = (err, it)   # COUNT of an error argument is 0: not judged
        else:
            tot, cnt = total(areas)
            exp[key], exp[key2] = (tot, it), (cnt, it)
    try:
        m = formulas.ExcelModel().from_dict(d)
        sol = m.calculate()
    except Exception as ex:
        if len(case['items']) > 1:   # pinpoint the item
            for it in case['items']:
                check_formulas(dict(case, items=[it]), ctx, sink)
            return
        ctx.violation('formula:model-raised:%s:%s' % (
            case['items'][0]['op'], type(ex).__name__), {
            'case': case, 'formula': [v for v in d.values() if isinstance(v, str) and v.startswith('=')],
            'observed': repr(ex)[:300], 'accepted': ['a model']})
        return
    for key, (want, it) in exp.items():
        ctx.count('monitor.formula')
        ctx.case((key, d[key], case.get('variant', 0)))
        try:
            got = xl.canon(xl.scalar(sol[key.upper()]))
        except KeyError:
            got = ('foreign', 'missing from solution')
        if want == 'error':
            ok = got[0] == 'err'
            acc = ['an error value']
        elif isinstance(want, str):
            ok = got == xl.c_err(want)
            acc = [want]
        else:
            ok = got == xl.c_num(want)
            acc = [repr(want)]
        if not ok:
            rel = probes._shape_class(
                [tuple(x) for x in it['a']], [tuple(x) for x in it['b']])
            if len(it['a']) > 1 and len(it['b']) > 1:
                rel = 'multi-both'
            ctx.violation('formula:%s:%s:%s' % (
                it['op'], d[key].split('(')[0][1:], rel), {
                'case': dict(case, items=[it]), 'formula': d[key],
                'observed': xl.show(got), 'accepted': acc,
                'as_two_arguments': repr(alt[key])})
    ctx.sample({'formula': d[key], 'expected': exp[key][0]})


# -- plan / run ---------------------------------------------------------------

# -- nested reference expressions ---------------------------------------------------

def _gen_ref_tree(rng, rects, depth):
    """['leaf', rect] | [op, left, right] with op in and/or/add"""
    if depth <= 0 or rng.random() < 0.3:
        return ['leaf', rng.choice(rects)]
    op = rng.choice(('and', 'or', 'add', 'or', 'add'))
    l, r = _gen_ref_tree(rng, rects, depth - 1), _gen_ref_tree(rng, rects, depth - 1)
    if op == 'and' and l[0] != 'leaf' and r[0] != 'leaf':
        r = ['leaf', rng.choice(rects)]      # `) (` adjacency: open finding of its own
    return [op, l, r]


def _tree_text(t, top=True):
    if t[0] == 'leaf':
        return _qual('S1', t[1])
    l, r = _tree_text(t[1], False), _tree_text(t[2], False)
    if t[0] == 'and':
        txt = '%s %s' % (l, r)
    elif t[0] == 'or':
        txt = '%s,%s' % (l, r)
    else:
        txt = '%s:%s' % (l, r)
    return '(%s)' % txt


def _tree_areas(t):
    """list of rectangles (a multiset of areas), None for an empty intersection
    or an ill-formed range (propagates upwards)"""
    if t[0] == 'leaf':
        return [('S1',) + tuple(t[1][1:])]
    a, b = _tree_areas(t[1]), _tree_areas(t[2])
    if a is None or b is None:
        return None
    if t[0] == 'and':
        return rr.ref_and(a, b) or None
    if t[0] == 'or':
        return a + b
    bb = rr.bounding(a + b)
    return [bb] if bb else None


def check_ref_trees(case, ctx, sink):
    """case: {'n','base','variant','trees':[tree]}: SUM and COUNT of nested
    reference expressions against the cell-set definition."""
    import formulas
    sink.case = case
    n, base = case['n'], case['base']
    cells = _cells_for_model(n, base, case.get('variant', 0), False)
    d = {_key(s_, c, r): v for (s_, c, r), v in cells.items()}
    exp = {}
    for j, t in enumerate(case['trees']):
        areas = _tree_areas(t)
        if areas is None:
            continue
        tot, cnt = 0.0, 0
        for ar in areas:
            for cell in rr.cells(ar):
                v = cells.get(cell)
                if isinstance(v, float):
                    tot += v
                    cnt += 1
        key = '%s%d' % (rr.col_name(n + 3), j + 1)
        key2 = '%s%d' % (rr.col_name(n + 4), j + 1)
        d[key], d[key2] = '=SUM(%s)' % _tree_text(t), '=COUNT(%s)' % _tree_text(t)
        exp[key], exp[key2] = (tot, t), (float(cnt), t)
    try:
        sol = formulas.ExcelModel().from_dict(d).calculate()
    except Exception as ex:
        if len(case['trees']) > 1:
            for t in case['trees']:
                check_ref_trees(dict(case, trees=[t]), ctx, sink)
            return
        ctx.violation('tree:model-raised:%s' % type(ex).__name__, {
            'case': case, 'formula': _tree_text(case['trees'][0]),
            'observed': repr(ex)[:300], 'accepted': ['a model']})
        return
    for key, (want, t) in exp.items():
        ctx.count('monitor.tree')
        ctx.case((d[key], case.get('variant', 0)))
        try:
            got = xl.canon(xl.scalar(sol[key.upper()]))
        except KeyError:
            got = ('foreign', 'missing from solution')
        if got != xl.c_num(want):
            ctx.violation('tree:%s:%s' % (d[key].split('(')[0][1:], _tree_shape(t)), {
                'case': dict(case, trees=[t]), 'formula': d[key],
                'observed': xl.show(got), 'accepted': [repr(want)]})
    if exp:
        ctx.sample({'formula': d[key], 'expected': exp[key][0]})


def _leaves(t, out=None, under_add=False):
    """[(leaf rect, lies below a ':' node)]"""
    out = [] if out is None else out
    if t[0] == 'leaf':
        out.append((t[1], under_add))
    else:
        _leaves(t[1], out, under_add or t[0] == 'add')
        _leaves(t[2], out, under_add or t[0] == 'add')
    return out


def check_ref_pairs(case, ctx, sink):
    """case: {'n','base','variant','pairs':[[tree, leaf index, leaf first?]]}:
    one formula holding a nested reference expression *and* one of its own
    leaves as a second, plain argument: =SUM(tree)+SUM(leaf).  The values of
    the shared area must reach both arguments."""
    import formulas
    sink.case = case
    n, base = case['n'], case['base']
    cells = _cells_for_model(n, base, case.get('variant', 0), False)
    d = {_key(s_, c, r): v for (s_, c, r), v in cells.items()}
    exp = {}

    def total(areas):
        return sum(v for ar in areas for cell in rr.cells(ar)
                   for v in [cells.get(cell)] if isinstance(v, float))
    for j, (t, li, first) in enumerate(case['pairs']):
        areas = _tree_areas(t)
        leaves = _leaves(t)
        if areas is None or li >= len(leaves):
            continue
        leaf, under_add = leaves[li]
        # the same area may occur again elsewhere in the expression
        under_add = under_add or any(ua for l2, ua in leaves if l2 == leaf)
        la = [('S1',) + tuple(leaf[1:])]
        a, b = 'SUM(%s)' % _tree_text(t), 'SUM(%s)' % _qual('S1', leaf)
        key = '%s%d' % (rr.col_name(n + 3), j + 1)
        d[key] = '=%s+%s' % ((b, a) if first else (a, b))
        exp[key] = (total(areas) + total(la), t, under_add, first)
    try:
        sol = formulas.ExcelModel().from_dict(d).calculate()
    except Exception as ex:
        if len(case['pairs']) > 1:
            for pr in case['pairs']:
                check_ref_pairs(dict(case, pairs=[pr]), ctx, sink)
            return
        ctx.violation('pair:model-raised:%s' % type(ex).__name__, {
            'case': case, 'observed': repr(ex)[:300], 'accepted': ['a model']})
        return
    for key, (want, t, under_add, first) in exp.items():
        ctx.count('monitor.pair')
        ctx.case((d[key], case.get('variant', 0)))
        try:
            got = xl.canon(xl.scalar(sol[key.upper()]))
        except KeyError:
            got = ('foreign', 'missing from solution')
        if got != xl.c_num(want):
            ctx.violation('pair:%s:%s' % (
                'leaf-of-range-operator' if under_add else 'leaf',
                'leaf-first' if first else 'leaf-last'), {
                'case': dict(case, pairs=[pr for pr in case['pairs'] if pr[0] == t][:1]),
                'formula': d[key], 'shared_leaf_is_operand_of_range_operator': under_add,
                'observed': xl.show(got), 'accepted': [repr(want)]})
    if exp:
        ctx.sample({'formula': d[key], 'expected': exp[key][0]})


def _tree_shape(t):
    if t[0] == 'leaf':
        return '.'
    return '%s(%s%s)' % ({'and': 'I', 'or': 'U', 'add': 'R'}[t[0]],
                         _tree_shape(t[1]), _tree_shape(t[2]))


def plan(tier, seed):
    n = 4 if tier == 'quick' else 5
    nr = len(_grid_rects(n))
    shards = 14 if tier == 'quick' else 48
    specs = [{'kind': 'pairs', 'n': n, 'part': i, 'parts': shards}
             for i in range(shards)]
    nm = 2 if tier == 'quick' else 12
    for i in range(nm):
        specs.append({'kind': 'multi', 'count': 700 if tier == 'quick' else 2500})
    specs.append({'kind': 'wide', 'values': tier == 'thorough'})
    # every pair of a rectangle on one sheet and a rectangle on another one
    n2 = 3 if tier == 'quick' else 4
    for i in range(2 if tier == 'quick' else 8):
        specs.append({'kind': 'pairs2s', 'n': n2, 'part': i,
                      'parts': 2 if tier == 'quick' else 8})
    nf = 6 if tier == 'quick' else 24
    for i in range(nf):
        specs.append({'kind': 'formula', 'n': n, 'part': i, 'parts': nf,
                      'models': 6 if tier == 'quick' else 20})
    for i in range(4 if tier == 'quick' else 16):
        specs.append({'kind': 'trees', 'n': n, 'models': 10 if tier == 'quick' else 40})
    return specs


def _sink(ctx):
    probes.install_ranges_contracts()
    s = probes.Sink(ctx)
    probes.set_sink(s)
    return s


def check_case(case, ctx):
    s = _sink(ctx)
    if case['kind'] == 'pair':
        check_pair(case, ctx, s)
    elif case['kind'] == 'formula':
        check_formulas(case, ctx, s)
    elif case['kind'] == 'trees':
        check_ref_trees(case, ctx, s)
    elif case['kind'] == 'pairs':
        check_ref_pairs(case, ctx, s)


def _rand_rect(rng, n, sheet=''):
    c1, c2 = sorted((rng.randint(1, n), rng.randint(1, n)))
    r1, r2 = sorted((rng.randint(1, n), rng.randint(1, n)))
    return [sheet, c1, r1, c2, r2]


def run(spec, ctx):
    s = _sink(ctx)
    k = spec['kind']
    rng = ctx.rng
    if k == 'pairs':
        rects = _grid_rects(spec['n'])
        pairs = list(itertools.product(range(len(rects)), repeat=2))
        for idx in range(spec['part'], len(pairs), spec['parts']):
            i, j = pairs[idx]
            for content in ('unique', 'mixed'):
                case = {'kind': 'pair', 'a': [rects[i]], 'b': [rects[j]],
                        'content': content}
                ctx.open_case(case)
                check_pair(case, ctx, s)
        ctx.sample({'pair': [rr.spell(tuple(rects[i])), rr.spell(tuple(rects[j]))]})
        ctx.see('pairs_total', len(pairs))
    elif k == 'pairs2s':
        ra, rb = _grid_rects(spec['n']), _grid_rects(spec['n'], 'S2')
        pairs = list(itertools.product(range(len(ra)), range(len(rb))))
        for idx in range(spec['part'], len(pairs), spec['parts']):
            i, j = pairs[idx]
            for a, b in (([ra[i]], [rb[j]]), ([rb[j]], [ra[i]]),
                         ([ra[i], rb[j]], [ra[j]])):
                case = {'kind': 'pair', 'a': a, 'b': b, 'content': 'unique'}
                ctx.open_case(case)
                ctx.count('monitor.two-sheet-pairs')
                check_pair(case, ctx, s)
        ctx.sample(case)
    elif k == 'multi':
        for _ in range(spec['count']):
            n = rng.choice((3, 4, 5, 6))
            sheets = ['', ''] if rng.random() < 0.85 else ['', 'S2']
            a = [_rand_rect(rng, n, rng.choice(sheets))
                 for _ in range(rng.randint(1, 4))]
            b = [_rand_rect(rng, n, rng.choice(sheets))
                 for _ in range(rng.randint(1, 4))]
            if rng.random() < 0.3:
                b[0] = list(a[0])           # identical areas
            if rng.random() < 0.2 and len(a) > 1:
                a[1] = list(a[0])           # duplicate inside one operand
            case = {'kind': 'pair', 'a': a, 'b': b,
                    'content': rng.choice(('unique', 'mixed'))}
            ctx.open_case(case)
            check_pair(case, ctx, s)
        ctx.sample(case)
    elif k == 'wide':
        mc, mr = rr.MAXCOL, rr.MAXROW
        wides = [['', 1, 1, mc, 1], ['', 1, 2, mc, 3], ['', 1, 1, 1, mr],
                 ['', 2, 1, 3, mr], ['', 1, mr, mc, mr], ['', mc, 1, mc, mr],
                 ['', 1, 1, mc, mr], ['S2', 1, 1, mc, 2], ['S2', 3, 1, 3, mr]]
        small = [['', 1, 1, 2, 2], ['', 2, 2, 4, 5], ['', 3, 1, 3, 1],
                 ['S2', 1, 1, 3, 3], ['', mc - 1, 1, mc, 2], ['', 1, mr - 1, 2, mr]]
        for a in wides:
            for b in wides + small:
                for x, y in ((a, b), (b, a)):
                    case = {'kind': 'pair', 'a': [x], 'b': [y], 'content': None,
                            'simplify_wide': (x, y) in (
                                (wides[0], small[0]), (wides[1], wides[2]),
                                (wides[7], small[3]))}
                    ctx.open_case(case)
                    check_pair(case, ctx, s)
        # whole rows with values are cheap (16384 cells); the contract skips
        # areas above 4096 cells, so judge the narrow intersections
        for a, b in ((['', 1, 2, mc, 2], ['', 2, 1, 3, 4]),
                     (['', 1, 1, mc, 1], ['', 5, 1, 5, 1])):
            case = {'kind': 'pair', 'a': [a], 'b': [b], 'content': 'unique'}
            check_pair(case, ctx, s)
        if spec.get('values'):
            case = {'kind': 'pair', 'a': [['', 2, 1, 2, mr]],
                    'b': [['', 1, 3, 4, 4]], 'content': 'unique'}
            check_pair(case, ctx, s)
        ctx.sample(case)
    elif k == 'trees':
        n = spec['n']
        rects = _grid_rects(n)
        for mi in range(spec['models']):
            trees = [t for t in (_gen_ref_tree(rng, rects, rng.randint(2, 3))
                                 for _ in range(30)) if t[0] != 'leaf']
            case = {'kind': 'trees', 'n': n, 'base': 3, 'variant': mi % 4, 'trees': trees}
            ctx.open_case({'kind': 'trees', 'model': mi})
            check_ref_trees(case, ctx, s)
            pairs = [[t, rng.randrange(4), rng.random() < 0.5] for t in trees[:20]]
            case = {'kind': 'pairs', 'n': n, 'base': 3, 'variant': mi % 4, 'pairs': pairs}
            ctx.open_case({'kind': 'pairs', 'model': mi})
            check_ref_pairs(case, ctx, s)
    elif k == 'formula':
        n = spec['n']
        rects = _grid_rects(n)
        for mi in range(spec['models']):
            items = []
            multi = mi % 3 == 2
            for _ in range(40):
                if multi:
                    a = [rng.choice(rects) for _ in range(rng.randint(1, 2))]
                    b = [rng.choice(rects) for _ in range(rng.randint(1, 2))]
                    op = rng.choice(('and', 'or'))
                else:
                    a, b = [rng.choice(rects)], [rng.choice(rects)]
                    op = rng.choice(('and', 'or', 'add'))
                    if rng.random() < 0.08:
                        b = [['S2'] + b[0][1:]]
                items.append({'op': op, 'a': a, 'b': b})
            case = {'kind': 'formula', 'n': n, 'base': 5 if multi else 3,
                    'variant': mi % 4, 'items': items}
            if n == 5 and multi:
                case['base'] = 3   # 5**25 would not be exact; <=2 areas each
                for it in items:
                    it['a'], it['b'] = it['a'][:1], it['b'][:1]
            ctx.open_case({'kind': 'formula', 'model': mi})
            check_formulas(case, ctx, s)


def finalize(agg, tier):
    c, inc = agg['counters'], []
    for k, floor in (('contract.and', 5000), ('contract.or', 5000),
                     ('contract.add', 5000), ('contract.sub', 5000),
                     ('contract.simplify', 5000), ('contract.value', 5000),
                     ('monitor.formula', 500), ('monitor.add-values', 2000),
                     ('monitor.tree', 1000), ('monitor.pair', 300),
                     ('monitor.two-sheet-pairs', 3000)):
        if c.get(k, 0) < floor:
            inc.append('monitor %s saw %d events (< %d)' % (k, c.get(k, 0), floor))
    rel = set(agg['sets'].get('relation', ()))
    need = {'disjoint', 'touching', 'overlapping', 'contained', 'identical',
            'other-sheet', 'multi'}
    if need - rel:
        inc.append('relative-position classes never seen: %s' % sorted(need - rel))
    return {'inconclusive': inc, 'coverage': {
        'exhaustive': True,
        'exhaustive_note': 'all ordered rectangle pairs of the NxN grid; all pairs '
                           'of a rectangle on one sheet and one on another sheet of '
                           'the smaller grid',
        'relation_classes': sorted(rel)}}
