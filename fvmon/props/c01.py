"""C01 - formulas are parsed according to Excel's operator grammar.

For a tree T: every spelling (minimal / full / redundant parentheses, white
space, case, sign runs) must (a) export the fully parenthesised rendering of
T (compared modulo layout and case), (b) evaluate to the reference value of
T, (c) agree with every other spelling of T.  Exhaustive over all 2- and
3-operator trees of the 15 operators; random trees to depth 5.
"""
import itertools

from .. import xl
from ..gen import formulas as gf
from ..ref import grammar as rg

ID = 'C01'
LEVEL = 'exploration'
RULE = ('a case is (tree, spelling); trees: every 2-operator tree (parent x '
        'child x operand position: 405) and every 3-operator tree (chains and '
        'two-child shapes; 1/4 of them in quick, all in thorough) over the 15 '
        'operators with distinct prime operands, plus random trees to depth 5 '
        'over numbers, strings, logicals, references, order-sensitive '
        'variadic calls (with empty arguments) and array literals; spellings: '
        'minimal parentheses, full parentheses, redundant parentheses + white '
        'space + case changes, and sign runs; distinct = distinct (tree, '
        'spelling text); non-trivial = parsed and compared with the '
        'reference rendering')
ASSUMPTIONS = [
    'exported text is compared modulo white space outside string literals and '
    'letter case outside string literals',
    'the value clause is judged only where the reference value is certain '
    '(singleton accept-set of ref.scalar; calls restricted to IF/SUM/MAX/MIN/'
    'CONCATENATE over unambiguous arguments); the text clause is always judged',
    'white space = blanks and newlines (tabs are not generated)',
]
OPS = gf.ALL_OPS
PRIMES = ['2', '3', '5', '7', '11', '13', '17']
ENV = {'A1': 2.0, 'B1': 3.0, 'C1': 5.0}


def _mk(op, kids):
    if op in ('u-', 'u+'):
        return ['un', op[1], kids[0]]
    if op == '%':
        return ['pct', kids[0]]
    return ['bin', op, kids[0], kids[1]]


def _arity(op):
    return 1 if op in ('u-', 'u+', '%') else 2


def two_op_trees():
    for p in OPS:
        for c in OPS:
            for pos in range(_arity(p)):
                leaves = iter(PRIMES)
                child = _mk(c, [['num', next(leaves)] for _ in range(_arity(c))])
                kids = [child if i == pos else ['num', next(leaves)]
                        for i in range(_arity(p))]
                yield (p, c, pos), _mk(p, kids)


def three_op_trees():
    # chains p -> c -> g
    for p in OPS:
        for c in OPS:
            for g in OPS:
                for pos in range(_arity(p)):
                    for pos2 in range(_arity(c)):
                        leaves = iter(PRIMES)
                        gg = _mk(g, [['num', next(leaves)] for _ in range(_arity(g))])
                        ck = [gg if i == pos2 else ['num', next(leaves)]
                              for i in range(_arity(c))]
                        cc = _mk(c, ck)
                        pk = [cc if i == pos else ['num', next(leaves)]
                              for i in range(_arity(p))]
                        yield ('chain', p, c, g, pos, pos2), _mk(p, pk)
    # binary parent with two operator children
    for p in OPS:
        if _arity(p) != 2:
            continue
        for c1 in OPS:
            for c2 in OPS:
                leaves = iter(PRIMES)
                a = _mk(c1, [['num', next(leaves)] for _ in range(_arity(c1))])
                b = _mk(c2, [['num', next(leaves)] for _ in range(_arity(c2))])
                yield ('fork', p, c1, c2), _mk(p, [a, b])


def spell_all(t, rng):
    """-> list of (kind, text)"""
    out = []
    s_min = gf.Speller(rng).spell(t)
    out.append(('min', s_min))
    out.append(('full', gf.Speller(rng, full=True).spell(t)))
    out.append(('noisy', gf.Speller(rng, ws=0.35, case=0.4, extra=0.25).spell(t)))
    out.append(('noisy-full', gf.Speller(rng, ws=0.5, case=0.5, full=True).spell(t)))
    s_run = gf.Speller(rng, guard_signs=False).spell(t)
    if s_run != s_min:
        out.append(('signrun', s_run))
        out.append(('signrun-ws', gf.Speller(rng, ws=0.4, guard_signs=False).spell(t)))
    return out


class Mon:
    def __init__(self, ctx):
        import formulas
        self.P = formulas.Parser()
        self.ctx = ctx

    def check(self, case):
        ctx = self.ctx
        t = case['tree']
        env = case.get('env') or ENV
        want_text = gf.normalise_text(gf.render(t))
        want_val = rg.eval_tree(t, env)
        shape = case.get('shape') or 'random-d%d' % gf.depth(t)
        seen_text, seen_val = None, None
        for kind, s in case['spellings']:
            ctx.case((shape if isinstance(shape, str) else list(shape), s))
            ctx.count('spelling.' + kind.split('-')[0])
            w = {'case': dict(case, spellings=[[kind, s]]), 'spelling': s,
                 'spelling_kind': kind, 'sign_run': gf.has_sign_run(s),
                 'tree_text': gf.render(t)}
            try:
                builder = self.P.ast(s)[1]
                expr = builder[-1].get_expr
                fn = builder.compile()
            except Exception as ex:
                ctx.violation('rejected-valid:%s:%s' % (type(ex).__name__, kind), dict(
                    w, observed='%s: %s' % (type(ex).__name__, str(ex)[:80]),
                    accepted=['a formula']))
                continue
            got_text = gf.normalise_text(expr)
            name_text = gf.normalise_text(getattr(fn, '__name__', ''))
            ctx.count('monitor.text')
            sig_shape = _sig_shape(shape)
            if got_text != want_text:
                ctx.violation('text:%s:%s' % (sig_shape, _kindclass(kind)), dict(
                    w, observed=expr, accepted=[gf.render(t)]))
            elif name_text != '=' + want_text:
                ctx.violation('name:%s' % sig_shape, dict(
                    w, observed=getattr(fn, '__name__', None),
                    accepted=['=' + gf.render(t)]))
            # value
            try:
                args = [env[k.upper()] for k in fn.inputs]
                val = xl.canon(xl.unwrap(fn(*args)))
                if val[0] == 'arr' and len(val) == 2 and len(val[1]) == 1 \
                        and (want_val is None or want_val[0] != 'arr'):
                    val = val[1][0]
            except Exception as ex:
                val = ('foreign', 'raised ' + type(ex).__name__)
            if want_val is not None:
                ctx.count('monitor.value')
                if not xl.same(val, want_val, rel=1e-9):
                    ctx.violation('value:%s:%s' % (sig_shape, _kindclass(kind)), dict(
                        w, observed=xl.show(val), accepted=[xl.show(want_val)],
                        exported=expr))
            else:
                ctx.count('monitor.value-not-certain')
            if seen_text is None:
                seen_text, seen_val = (got_text, s), val
            else:
                ctx.count('monitor.cross-spelling')
                if got_text != seen_text[0]:
                    ctx.violation('spellings-disagree:text:%s:%s' % (
                        sig_shape, _kindclass(kind)), dict(
                        w, observed=expr, accepted=[seen_text[0]],
                        other_spelling=seen_text[1]))
                elif not xl.same(val, seen_val, rel=1e-12):
                    ctx.violation('spellings-disagree:value:%s:%s' % (
                        sig_shape, _kindclass(kind)), dict(
                        w, observed=xl.show(val), accepted=[xl.show(seen_val)],
                        other_spelling=seen_text[1]))


def _kindclass(kind):
    return 'signrun' if kind.startswith('signrun') else 'plain'


def _sig_shape(shape):
    if isinstance(shape, str):
        return shape
    return '/'.join(str(x) for x in shape)


def check_to_dict(trees, ctx):
    """Third observation point: ExcelModel.to_dict() formula strings."""
    import formulas
    d = {'A1': 2.0, 'B1': 3.0, 'C1': 5.0}
    want = {}
    for i, (t, s) in enumerate(trees):
        key = 'E%d' % (i + 1)
        d[key] = s
        want[key] = (t, s)
    try:
        m = formulas.ExcelModel().from_dict(d)
        out = m.to_dict()
    except Exception as ex:
        ctx.violation('to_dict:raised:%s' % type(ex).__name__, {
            'case': {'kind': 'to_dict', 'cells': d},
            'observed': repr(ex)[:200], 'accepted': ['a dictionary']})
        return
    for key, (t, s) in want.items():
        ctx.count('monitor.to_dict')
        ctx.case(('to_dict', s))
        got = out.get(key)
        if not isinstance(got, str) or \
                gf.normalise_text(got) != '=' + gf.normalise_text(gf.render(t)):
            ctx.violation('to_dict:text:%s' % (
                'signrun' if gf.has_sign_run(s) else 'plain'), {
                'case': {'kind': 'to_dict', 'cells': {
                    'A1': 2.0, 'B1': 3.0, 'C1': 5.0, key: s}},
                'spelling': s, 'sign_run': gf.has_sign_run(s),
                'spelling_kind': 'signrun' if gf.has_sign_run(s) else 'min',
                'observed': got, 'accepted': ['=' + gf.render(t)]})


def plan(tier, seed):
    specs = [{'kind': 'pairs'}]
    n3 = 15 if tier == 'quick' else 30
    frac = 4 if tier == 'quick' else 1
    for i in range(n3):
        specs.append({'kind': 'triples', 'part': i, 'parts': n3, 'frac': frac,
                      'offset': seed % frac})
    nr = 8 if tier == 'quick' else 32
    for i in range(nr):
        specs.append({'kind': 'random', 'count': 450 if tier == 'quick' else 2000})
    return specs


def check_case(case, ctx):
    if case['kind'] == 'to_dict':
        import formulas
        cells = case['cells']
        keys = [k for k in cells if isinstance(cells[k], str)]
        # replay: re-run the export and show it
        m = formulas.ExcelModel().from_dict(cells)
        ctx.sample({k: m.to_dict().get(k) for k in keys})
        return
    Mon(ctx).check(case)


def run(spec, ctx):
    rng = ctx.rng
    mon = Mon(ctx)
    k = spec['kind']
    if k == 'pairs':
        n = 0
        for shape, t in two_op_trees():
            case = {'kind': 'tree', 'tree': t, 'shape': list(shape),
                    'spellings': spell_all(t, rng)}
            ctx.open_case(case)
            mon.check(case)
            ctx.see('pair', '%s|%s' % (shape[0], shape[1]))
            n += 1
        ctx.count('trees.two-op', n)
        ctx.sample({'tree': gf.render(t), 'spellings': case['spellings'][:3]})
    elif k == 'triples':
        n = 0
        for i, (shape, t) in enumerate(three_op_trees()):
            if i % spec['parts'] != spec['part']:
                continue
            if (i // spec['parts']) % spec['frac'] != spec['offset']:
                continue
            sp = spell_all(t, rng)
            case = {'kind': 'tree', 'tree': t, 'shape': list(shape),
                    'spellings': [sp[0], sp[2]] + sp[4:5]}
            ctx.open_case(case)
            mon.check(case)
            n += 1
        ctx.count('trees.three-op', n)
    elif k == 'random':
        batch = []
        for i in range(spec['count']):
            d = rng.choice((2, 3, 3, 4, 4, 5))
            numeric = rng.random() < 0.5
            t = gf.rand_tree(rng, d, numeric=numeric, p_call=0.2, p_arr=0.08)
            if rng.random() < 0.04:
                t = ['arr', [[gf.rand_leaf(rng, kinds='nnsb') for _ in range(rng.randint(1, 4))]
                             for _ in range(rng.randint(1, 4))]]
                rr_ = len(t[1][0])
                t[1] = [row[:rr_] + [['num', '1']] * (rr_ - len(row)) for row in t[1]]
            case = {'kind': 'tree', 'tree': t, 'spellings': spell_all(t, rng)}
            ctx.open_case(case)
            mon.check(case)
            ctx.see('depth', gf.depth(t))
            if i % 6 == 0:
                batch.append((t, case['spellings'][rng.randrange(
                    len(case['spellings']))][1]))
            if len(batch) == 25:
                check_to_dict(batch, ctx)
                batch = []
        ctx.count('trees.random', spec['count'])
        ctx.sample({'tree': gf.render(t), 'spellings': case['spellings'][:2]})


def finalize(agg, tier):
    c, inc = agg['counters'], []
    pairs = set(agg['sets'].get('pair', ()))
    if len(pairs) < 225:
        inc.append('operator pairs observed %d < 225' % len(pairs))
    for k, floor in (('monitor.text', 8000), ('monitor.value', 5000),
                     ('monitor.cross-spelling', 6000), ('trees.random', 2000),
                     ('trees.three-op', 3000), ('monitor.to_dict', 300)):
        if c.get(k, 0) < floor:
            inc.append('monitor %s saw %d events (< %d)' % (k, c.get(k, 0), floor))
    return {'inconclusive': inc, 'coverage': {
        'operator_pairs_covered': len(pairs),
        'exhaustive': True,
        'exhaustive_note': 'all 2-operator trees; all 3-operator trees in the '
                           'thorough tier (1/4 per seed in quick)'}}
