"""C09 - JSON export and import preserve every value and are a fixed point.

Round-trip differential monitor: every model m (from generated descriptions,
loaded by dictionary or from xlsx, with hostile constants and sheet names) is
exported, sent through json, re-imported and recalculated: all cells, names
and ranges must keep their values, the second export must equal the first,
and every exported formula text must parse back to itself.
"""
import os
import json
import random

from .. import xl, wbrun, worker
from ..gen import workbooks as gw, formulas as gf
from ..ref import workbook as rw

ID = 'C09'
LEVEL = 'exploration'
RULE = ('model cases: (workbook description, load path) incl. hostile '
        'constants (text starting with =, containing " \' !, #EMPTY / error-'
        'looking text, every error value, blanks, HexValue), sheet names '
        'needing quotes, all reference forms, array formulas, names and '
        'unresolved items; tree cases: formula trees of the C01 generator; '
        'distinct = distinct (description, path) / exported text; non-trivial '
        '= exported, re-imported and compared')
ASSUMPTIONS = [
    'values are compared through calculate() on both models; floats exactly',
    'text constants that look like formulas / errors can only be expressed '
    'through the xlsx load path (string cells); in the dictionary path they '
    'are written with the documented ="..." escape',
]
HOSTILE = ['=1+2', '=SUM(A1)', '=a"b', 'say "hi"', "it's", 'a!b', '#EMPTY',
           '#empty', '#N/A', '#REF!', "'quoted'", '=', '=""', '"', 'TRUE',
           '12', ' 4 ', '1E+3', '', 'x\ny', '{1,2}', "='S'!A1",
           # formula / error look-alikes behind white space or a sheet prefix
           ' =B1+1', '  #N/A', 'DATA!#REF!', ' {=B1*2}', '\t=1+1', ' #EMPTY',
           # formula look-alikes over several lines
           '=SUM(A2:A3)\n+ 1', '=A1\n', '="a\nb"', '=\n1']
ERRORS = ['#NULL!', '#DIV/0!', '#VALUE!', '#REF!', '#NAME?', '#NUM!', '#N/A']


def _sol_values(sol):
    """node id -> canonical value for every non-token node of a solution"""
    out = {}
    import schedula as sh
    for k, v in sol.items():
        if not isinstance(k, str) or isinstance(k, sh.Token):
            continue
        try:
            out[k] = xl.canon(xl.unwrap(v))
        except Exception as ex:
            out[k] = ('foreign', type(ex).__name__)
    return out


def roundtrip(model, ctx, case, tag):
    import formulas
    w = {'case': case}
    try:
        sol1 = _sol_values(model.calculate())
        d1 = model.to_dict()
        js = json.dumps(d1)
    except Exception as ex:
        ctx.violation('export-raised:%s:%s' % (tag, type(ex).__name__), dict(
            w, observed='%s: %s' % (type(ex).__name__, str(ex)[:200]),
            accepted=['a JSON dictionary']))
        return None
    try:
        m2 = formulas.ExcelModel().from_dict(json.loads(js))
        sol2 = _sol_values(m2.calculate())
    except Exception as ex:
        bad = _blame(d1)
        ctx.violation('import-raised:%s:%s:%s' % (tag, type(ex).__name__, bad[0]), dict(
            w, suspect=bad[1], observed='%s: %s' % (type(ex).__name__, str(ex)[:200]),
            accepted=['a model']))
        return d1
    ctx.count('monitor.roundtrip')
    for k, v in sol1.items():
        v2 = sol2.get(k, ('missing',))
        if v == ('arr', (xl.BLANK,)) and v2 == ('missing',):
            continue     # an unpopulated cell that nobody reads any more
        ctx.count('monitor.roundtrip-values')
        if not xl.same(v, v2, rel=1e-15):
            cls = _value_class(d1.get(k), k)
            ctx.violation('value-changed:%s:%s:%s->%s' % (
                tag, cls, wbrun._cls(v if v[0] != 'arr' else v[1][0]),
                wbrun._cls(v2 if v2[0] != 'arr' else v2[1][0])), dict(
                w, node=k, exported=_short(d1.get(k)), observed=xl.show(v2),
                accepted=[xl.show(v)]))
    # finishing the imported model (the usual next call) changes nothing
    try:
        m3 = formulas.ExcelModel().from_dict(json.loads(js)).finish()
        sol3 = _sol_values(m3.calculate())
    except Exception as ex:
        ctx.violation('import+finish-raised:%s:%s' % (tag, type(ex).__name__), dict(
            w, observed='%s: %s' % (type(ex).__name__, str(ex)[:200]),
            accepted=['a model']))
        sol3 = None
    if sol3 is not None:
        ctx.count('monitor.roundtrip-finished')
        for k, v in sol1.items():
            v3 = sol3.get(k, ('missing',))
            if v == ('arr', (xl.BLANK,)) and v3 == ('missing',):
                continue
            if not xl.same(v, v3, rel=1e-15) and xl.same(v, sol2.get(k, ('missing',)),
                                                         rel=1e-15):
                cls = _value_class(d1.get(k), k)
                ctx.violation('value-changed-by-finish:%s:%s:%s->%s' % (
                    tag, cls, wbrun._cls(v if v[0] != 'arr' else v[1][0]),
                    wbrun._cls(v3 if v3[0] != 'arr' else v3[1][0])), dict(
                    w, node=k, exported=_short(d1.get(k)), observed=xl.show(v3),
                    accepted=[xl.show(v)]))
                break
    try:
        d2 = m2.to_dict()
    except Exception as ex:
        ctx.violation('re-export-raised:%s:%s' % (tag, type(ex).__name__), dict(
            w, observed=repr(ex)[:200], accepted=['the first export']))
        return d1
    ctx.count('monitor.fixed-point')
    if d2 != d1:
        keys = sorted(k for k in set(d1) | set(d2) if d1.get(k) != d2.get(k))
        cls = _value_class(d1.get(keys[0]), keys[0])
        ctx.violation('export-drifts:%s:%s' % (tag, cls), dict(
            w, node=keys[0], observed=_short(d2.get(keys[0], '<absent>')),
            accepted=[_short(d1.get(keys[0], '<absent>'))], n_keys=len(keys),
            all_differences=[[k, _short(d1.get(k, '<absent>')),
                              _short(d2.get(k, '<absent>'))] for k in keys[:40]]))
    return d1


def _short(v):
    s = json.dumps(v, default=repr)
    return s if len(s) < 200 else s[:200] + '...'


def _value_class(v, key=''):
    if isinstance(v, str):
        if v.startswith('="') and v.endswith('"') and v.count('"') >= 2 \
                and not any(c in v[2:-1] for c in '()+*'):
            return 'escaped-text'
        if v.startswith('='):
            return 'formula'
        if v.upper() == '#EMPTY':
            return 'empty-marker'
        if v.startswith('#'):
            return 'hash-text'
        return 'text'
    if isinstance(v, dict):
        return 'hexvalue'
    if isinstance(v, bool):
        return 'bool'
    if isinstance(v, (int, float)):
        return 'number'
    if v is None:
        return 'absent'
    return type(v).__name__


def _blame(d1):
    """Which exported item cannot be imported alone (for the signature)."""
    import formulas
    for k, v in d1.items():
        try:
            formulas.ExcelModel().from_dict({k: v})
        except Exception:
            return _value_class(v, k), {k: v}
    return 'unknown', None


def reparse_exports(d1, ctx, case):
    """Every exported formula text parses back to the same text."""
    import formulas
    P = formulas.Parser()
    for k, v in d1.items():
        if not (isinstance(v, str) and v.startswith('=') and P.is_formula(v)):
            continue
        ctx.count('monitor.reparse')
        try:
            expr = P.ast(v)[1][-1].get_expr
        except Exception as ex:
            ctx.violation('reparse-raised:%s:%s' % (
                type(ex).__name__, 'signrun' if gf.has_sign_run(v) else 'plain'), {
                'case': case, 'node': k, 'spelling': v,
                'sign_run': gf.has_sign_run(v),
                'observed': type(ex).__name__, 'accepted': [v]})
            continue
        if gf.normalise_text('=' + expr) != gf.normalise_text(v):
            ctx.violation('reparse-differs:%s' % (
                'signrun' if gf.has_sign_run(v) else 'plain'), {
                'case': case, 'node': k, 'spelling': v,
                'sign_run': gf.has_sign_run(v),
                'observed': '=' + expr, 'accepted': [v]})


# -- workloads -----------------------------------------------------------------

def make_desc(seed, i):
    rng = random.Random('fvmon/C09/%s/%s' % (seed, i))
    desc = gw.gen(rng)
    if i % 3 == 1:
        # every reference occurrence in one of its equivalent spellings
        # ($ markers, case, reversed corners, own-sheet qualification)
        desc['spelling'] = 'c09/%s' % i
    return desc


def check_desc(case, ctx):
    desc = case['desc']
    path = case.get('path', 'dict')
    try:
        if path == 'xlsx':
            m, _ = wbrun.load_xlsx(desc, os.path.join(worker.scratch_dir(), 'c9'))
        else:
            m = wbrun.load_dict(desc)
    except Exception as ex:
        ctx.violation('load-raised:%s:%s' % (path, type(ex).__name__), {
            'case': case, 'observed': repr(ex)[:200], 'accepted': ['a model']})
        return
    ctx.case((case.get('id'), path))
    d1 = roundtrip(m, ctx, case, path)
    if d1:
        reparse_exports(d1, ctx, case)
    if isinstance(case.get('id'), int) and case['id'] % 3 == 0:
        # the export of a copy / unpickled model is the same model
        import copy
        import dill
        for label, mk in (('deepcopy', copy.deepcopy),
                          ('dill', lambda x: dill.loads(dill.dumps(x)))):
            try:
                m2 = mk(m)
                d2 = m2.to_dict()
            except Exception as ex:
                ctx.violation('copy-export-raised:%s:%s' % (label, type(ex).__name__), {
                    'case': case, 'observed': repr(ex)[:150], 'accepted': ['the same export']})
                continue
            ctx.count('monitor.copy-export')
            if d1 is not None and d2 != d1:
                keys = sorted(k for k in set(d1) | set(d2) if d1.get(k) != d2.get(k))
                ctx.violation('copy-export-differs:%s:%s' % (label, _value_class(d1.get(keys[0]))), {
                    'case': case, 'node': keys[0], 'n_keys': len(keys),
                    'observed': _short(d2.get(keys[0], '<absent>')),
                    'accepted': [_short(d1.get(keys[0], '<absent>'))]})


def hostile_book(rng, dirpath, sheet_names):
    """An xlsx with hostile string constants, error constants, and formulas
    that observe them (ISTEXT / LEN / & / = / ISBLANK / ISERROR)."""
    import openpyxl
    wb = openpyxl.Workbook()
    wb.remove(wb.active)
    cells = {}
    for sn in sheet_names:
        ws = wb.create_sheet(sn)
        row = 1
        for txt in rng.sample(HOSTILE, 8) + rng.sample(ERRORS, 3):
            c = ws.cell(row=row, column=1)
            if txt in ERRORS and rng.random() < 0.8:
                c.value = txt            # an error constant
                c.data_type = 'e'
                kind = 'error'
            else:
                c.value = txt
                c.data_type = 's'        # a *text* constant, whatever it looks like
                kind = 'text'
            ws.cell(row=row, column=2).value = '=ISTEXT(A%d)' % row
            ws.cell(row=row, column=3).value = '=IF(ISERROR(A%d),"err",LEN(A%d))' % (row, row)
            ws.cell(row=row, column=4).value = '=IF(ISERROR(A%d),"err",A%d&"|")' % (row, row)
            ws.cell(row=row, column=5).value = '=ISBLANK(A%d)' % row
            cells[(sn, row)] = (kind, txt)
            row += 1
        ws.cell(row=row, column=1).value = 5
        # unresolved items: a missing sheet and an unloadable workbook
        ws.cell(row=row, column=6).value = '=Gone!A1+1'
        ws.cell(row=row, column=7).value = "='[nofile9.xlsx]S'!B2*2"
        ws.cell(row=row, column=8).value = '=IF(ISERROR(Gone!A1),"broken","fine")'
        ws.cell(row=row, column=9).value = '=IFERROR(F%d,"caught")' % row
        ws.cell(row=row, column=2).value = '=A%d*2' % row
        ws.cell(row=row + 1, column=2).value = '=ISBLANK(A%d)' % (row + 3)
    path = os.path.join(dirpath, 'h.xlsx')
    wb.save(path)
    return path, cells


def check_hostile(case, ctx):
    import formulas
    rng = random.Random('fvmon/C09/h/%s' % case['id'])
    d = os.path.join(worker.scratch_dir(), 'c9h')
    os.makedirs(d, exist_ok=True)
    names = case['sheets']
    path, cells = hostile_book(rng, d, names)
    ctx.case(('hostile', case['id']))
    try:
        m = formulas.ExcelModel().loads(path).finish()
    except Exception as ex:
        ctx.violation('load-raised:hostile:%s' % type(ex).__name__, {
            'case': case, 'observed': repr(ex)[:200], 'accepted': ['a model']})
        return
    for sn in names:
        ctx.see('sheet_names', sn)
    d1 = roundtrip(m, ctx, dict(case, constants=sorted({v[1] for v in cells.values()})),
                   'hostile')
    if d1:
        reparse_exports(d1, ctx, case)


def check_hostile_dict(case, ctx):
    """Dictionary path: documented escape for text that looks like a formula,
    every error, blanks, HexValue, unresolved items."""
    import formulas
    rng = random.Random('fvmon/C09/hd/%s' % case['id'])
    d = {}
    for i, txt in enumerate(rng.sample(HOSTILE, 10), 1):
        if txt.lstrip()[:1] in ('=', '#', '{') or '!#' in txt or txt == '':
            d['A%d' % i] = '="%s"' % txt.replace('"', '""')
        else:
            d['A%d' % i] = txt
        d['B%d' % i] = '=LEN(A%d)' % i
        d['C%d' % i] = '=A%d&"|"' % i
    for i, e in enumerate(ERRORS, 20):
        d['A%d' % i] = '=' + e
        d['B%d' % i] = '=ISERROR(A%d)' % i
    d['A40'] = '#EMPTY'
    d['B40'] = '=ISBLANK(A40)'
    d['A41'] = {'type': 'HexValue', 'value': '_x0007_'}
    d['B41'] = '=LEN(A41)'
    d['A42'] = '=NOSUCHFUNC(1)+A1'
    d['A43'] = "='[b9.xlsx]NOPE'!A1+1"
    d['A44'] = '=UNDEFINED_NAME*2'
    d['A45'] = True
    d['A46'] = 2.5
    d['D1:D3'] = '=A45:A47*1'
    ctx.case(('hostile-dict', case['id']))
    try:
        m = formulas.ExcelModel().from_dict(d)
    except Exception as ex:
        ctx.violation('load-raised:hostile-dict:%s' % type(ex).__name__, {
            'case': dict(case, cells=d), 'observed': repr(ex)[:200],
            'accepted': ['a model']})
        return
    d1 = roundtrip(m, ctx, dict(case, cells=d), 'hostile-dict')
    if d1:
        reparse_exports(d1, ctx, case)


def check_trees(count, ctx):
    """Exported text of every C01 tree parses back to the same formula."""
    import formulas
    P = formulas.Parser()
    rng = ctx.rng
    for _ in range(count):
        t = gf.rand_tree(rng, rng.randint(1, 5), p_call=0.25, p_arr=0.08)
        guard = rng.random() < 0.85
        s = gf.Speller(rng, ws=0.2, case=0.2, extra=0.1, guard_signs=guard).spell(t)
        ctx.case(s)
        case = {'kind': 'tree', 'tree': t, 'spelling': s}
        try:
            b1 = P.ast(s)[1]
            e1 = b1[-1].get_expr
        except Exception:
            ctx.count('tree.first-parse-raised')
            continue
        w = {'case': case, 'spelling': s, 'sign_run': gf.has_sign_run(s) or
             gf.has_sign_run('=' + e1), 'exported': e1}
        try:
            b2 = P.ast('=' + e1)[1]
            e2 = b2[-1].get_expr
        except Exception as ex:
            ctx.violation('reparse-raised:%s:%s' % (
                type(ex).__name__, 'signrun' if w['sign_run'] else 'plain'), dict(
                w, observed=type(ex).__name__, accepted=[e1]))
            continue
        ctx.count('monitor.tree-reparse')
        if e2 != e1:
            ctx.violation('reparse-differs:%s' % (
                'signrun' if w['sign_run'] else 'plain'), dict(
                w, observed=e2, accepted=[e1]))
            continue
        env = {'A1': 2.0, 'B1': 3.0, 'C1': 5.0}
        try:
            f1, f2 = b1.compile(), b2.compile()
            v1 = xl.canon(xl.unwrap(f1(*[env[k.upper()] for k in f1.inputs])))
            v2 = xl.canon(xl.unwrap(f2(*[env[k.upper()] for k in f2.inputs])))
        except Exception:
            ctx.count('tree.compile-raised')
            continue
        if not xl.same(v1, v2, rel=1e-15):
            ctx.violation('reparse-value:%s' % (
                'signrun' if w['sign_run'] else 'plain'), dict(
                w, observed=xl.show(v2), accepted=[xl.show(v1)]))


# -- models finished with circular=True ----------------------------------------------------

def _has(t, kinds):
    return isinstance(t, list) and bool(t) and (
        t[0] in kinds or any(_has(x, kinds) for x in t[1:]))


def make_circular(seed, i):
    """Cyclic workbook of C10's generator whose cycles run through single
    cells only (no ranges, no names)."""
    import random
    from . import c10
    rng = random.Random('fvmon/C09/circ/%s/%s' % (seed, i))
    for _ in range(60):
        desc = c10.gen_workbook(rng)
        if not desc['names'] and not any(_has(t, ('sum', 'name'))
                                         for t in desc['cells'].values()):
            return {'kind': 'circular', 'id': '%s/%s' % (seed, i), 'desc': desc}
    return None


def check_circular(case, ctx):
    import formulas
    from . import c10
    d = c10.to_dict(case['desc'])

    def load(dd):
        m = formulas.ExcelModel().from_dict(dict(dd), assemble=False)
        return m.finish(complete=False, circular=True)
    try:
        m1 = load(d)
        sol1 = _sol_values(m1.calculate())
        d1 = m1.to_dict()
        js = json.dumps(d1)
    except Exception as ex:
        ctx.count('circular.export-raised')
        ctx.see('circular-raised', '%s: %s' % (type(ex).__name__, str(ex)[:80]))
        return
    ctx.case(('circular', case['id']))
    w = {'case': case}
    try:
        m2 = load(json.loads(js))
        sol2 = _sol_values(m2.calculate())
        d2 = m2.to_dict()
    except Exception as ex:
        ctx.violation('circular:import-raised:%s' % type(ex).__name__, dict(
            w, exported={k: _short(v) for k, v in sorted(d1.items())[:12]},
            observed='%s: %s' % (type(ex).__name__, str(ex)[:200]), accepted=['a model']))
        return
    ctx.count('monitor.circular-roundtrip')
    for k, v in d.items():
        # a formula stays a formula (the #CIRC! placeholder is no cell content)
        if isinstance(v, str) and v.startswith('=') and not str(d1.get(k, '')).startswith('='):
            ctx.violation('circular:formula-exported-as-value', dict(
                w, node=k, formula=v, observed=_short(d1.get(k)), accepted=['a formula text']))
            return
    for k, v in sol1.items():
        v2 = sol2.get(k, ('missing',))
        if not xl.same(v, v2, rel=1e-15):
            ctx.violation('circular:value-changed:%s->%s' % (
                wbrun._cls(v if v[0] != 'arr' else v[1][0]),
                wbrun._cls(v2 if v2[0] != 'arr' else v2[1][0])), dict(
                w, node=k, exported=_short(d1.get(k)), observed=xl.show(v2),
                accepted=[xl.show(v)]))
            return
    if d2 != d1:
        keys = sorted(k for k in set(d1) | set(d2) if d1.get(k) != d2.get(k))
        ctx.violation('circular:export-drifts', dict(
            w, node=keys[0], observed=_short(d2.get(keys[0], '<absent>')),
            accepted=[_short(d1.get(keys[0], '<absent>'))], n_keys=len(keys)))


def plan(tier, seed):
    n = 120 if tier == 'quick' else 1500
    per = 10 if tier == 'quick' else 50
    specs = [{'kind': 'descs', 'lo': lo, 'hi': min(n, lo + per)}
             for lo in range(0, n, per)]
    specs.append({'kind': 'hostile', 'count': 12 if tier == 'quick' else 150})
    nc = 200 if tier == 'quick' else 3000
    specs += [{'kind': 'circular', 'lo': lo, 'hi': lo + 100} for lo in range(0, nc, 100)]
    for i in range(2 if tier == 'quick' else 12):
        specs.append({'kind': 'trees', 'count': 2500 if tier == 'quick' else 9000})
    return specs


SHEETSETS = [['Sheet1'], ['My Sheet', 'Data'], ['x_2', 'a.b'], ['S-1'],
             ['2020'], ["it's"], ['Üni code', 'Sheet1'], ['A1B']]


def check_case(case, ctx):
    k = case['kind']
    if k == 'desc':
        check_desc(case, ctx)
    elif k == 'hostile':
        check_hostile(case, ctx)
    elif k == 'hostile-dict':
        check_hostile_dict(case, ctx)
    elif k == 'circular':
        check_circular(case, ctx)
    elif k == 'tree':
        check_trees(1, ctx)


def run(spec, ctx):
    k = spec['kind']
    if k == 'circular':
        case = None
        for i in range(spec['lo'], spec['hi']):
            c = make_circular(spec['seed'], i)
            if c is None:
                continue
            case = c
            ctx.open_case({'kind': 'circular', 'id': case['id']})
            check_circular(case, ctx)
        if case:
            ctx.sample({'circular_cells': sorted(case['desc']['cells'])})
        return
    if k == 'descs':
        for i in range(spec['lo'], spec['hi']):
            desc = make_desc(spec['seed'], i)
            case = {'kind': 'desc', 'id': i, 'desc': desc,
                    'path': 'xlsx' if i % 4 == 0 else 'dict'}
            ctx.open_case({'kind': 'desc', 'id': i})
            check_desc(case, ctx)
        ctx.sample({'description_index': i, 'path': case['path']})
    elif k == 'hostile':
        for i in range(spec['count']):
            case = {'kind': 'hostile', 'id': '%s/%s' % (spec['seed'], i),
                    'sheets': SHEETSETS[i % len(SHEETSETS)]}
            ctx.open_case(case)
            check_hostile(case, ctx)
            case2 = {'kind': 'hostile-dict', 'id': '%s/%s' % (spec['seed'], i)}
            check_hostile_dict(case2, ctx)
        ctx.sample({'hostile_constants': HOSTILE[:8], 'sheets': case['sheets']})
    elif k == 'trees':
        check_trees(spec['count'], ctx)


def finalize(agg, tier):
    c, inc = agg['counters'], []
    for k, floor in (('monitor.roundtrip', 100), ('monitor.roundtrip-values', 3000),
                     ('monitor.fixed-point', 100), ('monitor.reparse', 1000),
                     ('monitor.tree-reparse', 3000), ('monitor.circular-roundtrip', 120),
                     ('monitor.roundtrip-finished', 100)):
        if c.get(k, 0) < floor:
            inc.append('monitor %s saw %d events (< %d)' % (k, c.get(k, 0), floor))
    return {'inconclusive': inc, 'coverage': {
        'sheet_names': sorted(agg['sets'].get('sheet_names', ()))}}
