"""C15 - a model loaded from chosen outputs equals the full model on them.

Differential monitor on generated multi-sheet / multi-book .xlsx workbooks:
the fully loaded model (loads + finish + calculate) is the oracle for every
partial model obtained by from_ranges(*outputs).finish().calculate(); each
requested cell - cells, members and anchors of array formulas, rectangles over
formula cells, constants and blanks - must hold exactly the full model's
value.  The partial model's node count is recorded as evidence that it really
is partial.

Invariant at a quiescent point (second clause): the structure (data nodes,
function nodes, edges, default values) and the results of a model are
snapshotted after finish(); complete(), finish() and complete()+finish() are
then applied again and the snapshots compared - on full models, on partial
models and on models imported from a dictionary.
"""
import os
import random
import hashlib

from .. import xl, wbrun
from ..gen import workbooks as gw
from ..ref import workbook as rw

ID = 'C15'
LEVEL = 'exploration'
RULE = ('a case is (workbook description, output set, id form); descriptions '
        'as in C03 (1-2 books x 1-3 sheets, names incl. formula-valued ones, '
        'array formulas, whole-row and - thorough - whole-column references, '
        'cross-sheet and cross-book references); output sets: 1-3 of '
        '{formula cell, array anchor range, member of an array formula, '
        'rectangle over the formula zone, constant, unpopulated cell}; '
        'distinct = distinct (description, output set); non-trivial = the '
        'partial model was calculated and compared with the full model; '
        'idempotence cases: (description, load path, sequence of '
        'complete/finish calls)')
ASSUMPTIONS = [
    'the fully loaded model is the oracle (its own correctness is C03); both '
    'models are read from the same files',
    '"structure" = set of data-node ids, set of function-node ids, set of '
    'edges and the default values; "results" = canonical values of all '
    'populated cells',
]


def _structure(m):
    dsp = m.dsp
    data = sorted(map(str, dsp.data_nodes))
    funcs = sorted(map(str, dsp.function_nodes))
    edges = sorted('%s->%s' % e for e in dsp.dmap.edges)
    dfl = []
    for k, d in dsp.default_values.items():
        try:
            v = xl.show(xl.canon(xl.unwrap(d['value'])))
        except Exception:
            v = type(d['value']).__name__
        dfl.append('%s=%s' % (k, v))
    return {'data': data, 'functions': funcs, 'edges': edges,
            'defaults': sorted(dfl)}


def _diff(a, b):
    out = {}
    for k in a:
        sa, sb = set(a[k]), set(b[k])
        if sa != sb:
            out[k] = {'removed': sorted(sa - sb)[:6], 'added': sorted(sb - sa)[:6],
                      'n_removed': len(sa - sb), 'n_added': len(sb - sa)}
    return out


def _out_ids(desc, spec, form, d):
    """library range id and the cell keys it covers"""
    kind = spec[0]
    if kind in ('cell', 'member', 'const', 'blank'):
        key = tuple(spec[1])
        nid, keys = gw.key_of(desc, *key), [key]
    elif kind == 'array':
        key = tuple(spec[1])
        c1, r1, c2, r2 = wbrun_cell(desc, key)['arr']
        nid = gw.rect_key(desc, key[0], key[1], c1, r1, c2, r2)
        keys = [(key[0], key[1], c, r) for c in range(c1, c2 + 1)
                for r in range(r1, r2 + 1)]
    else:
        b, s, c1, r1, c2, r2 = spec[1]
        nid = gw.rect_key(desc, b, s, c1, r1, c2, r2)
        keys = [(b, s, c, r) for c in range(c1, c2 + 1) for r in range(r1, r2 + 1)]
    if form == 'abspath':
        nid = nid.replace("'[", "'[%s/" % d, 1)
    return nid, keys


def wbrun_cell(desc, key):
    b, s, c, r = key
    return desc['books'][b]['sheets'][s]['cells'].get('%s%d' % (gw.col_name(c), r))


def make_case(seed, i, tier='quick'):
    rng = random.Random('fvmon/C15/%s/%s' % (seed, i))
    desc = gw.gen(rng, whole_col=(tier != 'quick' and i % 4 == 0))
    readers = gw.add_adjacent_arrays(rng, desc) if i % 3 == 1 else []
    if i % 2 == 0:
        desc['spill_cache'] = True      # files as Excel saves them
    if i % 3 == 2:
        # formula-valued names over another book / over a sheet that does not
        # exist, and cells reading them (the names must be followed too)
        bb = len(desc['books']) - 1
        bk = desc['books'][bb]['name']
        desc['names']['ADJ_1'] = ['val', 0, ['bin', '*', ['cell', bb, 0, 1, 1], ['lit', 2.0]]]
        desc['names']['ADJ_GONE'] = ['val', 0, ['bin', '*', [
            'raw', 'Gone!$A$1', "'[%s]Gone'!$A$1" % bk], ['lit', 2.0]]]
        s0 = len(desc['books'][0]['sheets']) - 1
        rd = desc['books'][0]['sheets'][s0]['cells']
        rd['M3'] = {'f': ['bin', '+', ['name', 'ADJ_1'], ['lit', 1.0]]}
        rd['M4'] = {'f': ['call', 'IFERROR', [['bin', '+', ['name', 'ADJ_GONE'], ['lit', 1.0]],
                                             ['lit', -1.0]]]}
        readers = [(0, s0, 13, 3), (0, s0, 13, 4)]
        desc['formula_cells'] = list(desc.get('formula_cells', [])) + [list(k) for k in readers]
    ev = rw.Evaluator(desc)
    forms = wbrun.formula_cells(desc)
    anchors = [k for k in wbrun.formula_cells(desc, with_arrays=True) if k not in forms]
    members = [k for k in ev.owner if k not in ev.cells]
    consts = wbrun.constant_cells(desc)
    outsets = []
    for j in range(6):
        specs = []
        for _ in range(rng.randint(1, 3)):
            t = rng.random()
            if t < 0.4 and forms:
                specs.append(['cell', list(rng.choice(forms))])
            elif t < 0.55 and members:
                specs.append(['member', list(rng.choice(members))])
            elif t < 0.65 and anchors:
                specs.append(['array', list(rng.choice(anchors))])
            elif t < 0.85 and forms:
                b, s, c, r = rng.choice(forms)
                c2, r2 = c + rng.randint(0, 1), min(r + rng.randint(0, 3), 10)
                specs.append(['rect', [b, s, c, r, c2, r2]])
            elif t < 0.93 and consts:
                specs.append(['const', list(rng.choice(consts))])
            else:
                b = rng.randrange(len(desc['books']))
                s = rng.randrange(len(desc['books'][b]['sheets']))
                specs.append(['blank', [b, s, rng.randint(1, 3), rng.randint(9, 11)]])
        if readers and j < 3:
            # a rectangle over two adjacent array formulas without their anchors
            specs = [['cell', list(readers[j % 2])]] + specs[:j]
        outsets.append(specs)
    return {'kind': 'partial', 'id': i, 'desc': desc, 'outsets': outsets,
            'form': 'abspath' if i % 5 == 4 else 'basedir'}


def _full(desc, d):
    import formulas
    paths = gw.write_xlsx(desc, d)
    m = formulas.ExcelModel().loads(*paths).finish()
    return m, paths


def check_partial_case(case, ctx):
    import shutil
    import formulas
    from .. import worker
    desc = case['desc']
    d = os.path.join(worker.scratch_dir(), 'c15')
    shutil.rmtree(d, ignore_errors=True)
    os.makedirs(d)
    try:
        m, paths = _full(desc, d)
        full = wbrun.solution_cells(desc, m.calculate())
    except Exception as ex:
        ctx.count('full-model-raised')
        return
    n_full = len(m.dsp.data_nodes)
    prev_ids = None
    for n_set, specs in enumerate(case['outsets']):
        ids, keys = [], []
        for spec in specs:
            nid, ks = _out_ids(desc, spec, case['form'], d)
            ids.append(nid)
            keys += ks
        kinds = '+'.join(sorted({s[0] for s in specs}))
        w = {'case': dict(case, outsets=[specs]), 'outputs': ids}
        ctx.case((case['id'], ids))
        try:
            pm = formulas.ExcelModel()
            if case['form'] == 'basedir':
                pm.basedir = d
            if n_set % 3 == 2 and prev_ids and case['form'] == 'basedir':
                # the model already holds another request (its books and names
                # are registered): the new request must be completed all the same
                pm.from_ranges(*prev_ids)
                ctx.count('monitor.incremental-request')
                # from_ranges closes the request by itself: no second
                # completion inside finish()
                pm.from_ranges(*ids).finish(complete=False)
            else:
                pm.from_ranges(*ids).finish()
            psol = pm.calculate()
            part = wbrun.solution_cells(desc, psol, keys=keys)
        except Exception as ex:
            ctx.violation('partial-raised:%s:%s' % (type(ex).__name__, kinds), dict(
                w, observed='%s: %s' % (type(ex).__name__, str(ex)[:200]),
                accepted=['the values of the full model']))
            continue
        prev_ids = ids
        ctx.count('monitor.partial-models')
        ctx.count('partial.%s' % case['form'])
        for s in specs:
            ctx.count('outputs.' + s[0])
        n_part = len(pm.dsp.data_nodes)
        if n_part < n_full:
            ctx.count('partial.smaller-than-full')
        ctx.maximum('partial.nodes/full.nodes %', int(100.0 * n_part / max(n_full, 1)))
        for key in keys:
            o, f = part.get(key, ('missing',)), full.get(key, ('missing',))
            if f == ('missing',):
                f = xl.BLANK           # unpopulated cell requested as output
            if o == ('missing',) and f == xl.BLANK:
                o = xl.BLANK
            ctx.count('monitor.output-cells')
            if not (xl.same(o, f, rel=0) or {o, f} == {xl.BLANK, xl.c_num(0)}):
                cell = wbrun_cell(desc, key) or wbrun_cell(
                    desc, rw.Evaluator(desc).owner.get(key, key)) or {}
                ctx.violation('partial-differs:%s:%s->%s' % (
                    kinds, wbrun._cls(o), wbrun._cls(f)), dict(
                    w, cell=gw.key_of(desc, *key),
                    formula=gw.formula_text(desc, cell['f'], None, True)
                    if 'f' in cell else None,
                    observed=xl.show(o),
                    accepted=[xl.show(f) + ' (fully loaded model)']))
        # the partial model is complete for its outputs: finishing it again
        _idempotent(pm, desc, ctx, 'partial', w, keys)
    _idempotent(m, desc, ctx, 'full', {'case': dict(case, outsets=[])}, None)


def _idempotent(m, desc, ctx, what, w, keys):
    try:
        s0 = _structure(m)
        r0 = wbrun.solution_cells(desc, m.calculate(), keys=keys)
    except Exception:
        ctx.count('idempotence.snapshot-raised')
        return
    for step in ('complete', 'finish', 'complete+finish'):
        try:
            for call in step.split('+'):
                getattr(m, call)()
            s1 = _structure(m)
            r1 = wbrun.solution_cells(desc, m.calculate(), keys=keys)
        except Exception as ex:
            ctx.violation('again-raised:%s:%s:%s' % (what, step, type(ex).__name__), dict(
                w, step=step, observed='%s: %s' % (type(ex).__name__, str(ex)[:200]),
                accepted=['no change']))
            return
        ctx.count('monitor.idempotence-steps')
        ctx.count('idempotence.%s' % what)
        dd = _diff(s0, s1)
        if dd:
            ctx.violation('structure-changed:%s:%s:%s' % (
                what, step, '+'.join(sorted(dd))), dict(
                w, step=step, observed=dd, accepted=['the structure before the step']))
        bad = [k for k in r0 if not xl.same(r0[k], r1.get(k, ('missing',)), rel=0)]
        if bad:
            k = bad[0]
            ctx.violation('results-changed:%s:%s:%s->%s' % (
                what, step, wbrun._cls(r1.get(k, ('missing',))), wbrun._cls(r0[k])), dict(
                w, step=step, cell=gw.key_of(desc, *k), n_cells=len(bad),
                observed=xl.show(r1.get(k, ('missing',))), accepted=[xl.show(r0[k])]))
        if dd or bad:
            return


def check_dict_case(case, ctx):
    """A model imported from a dictionary is complete by construction."""
    desc = case['desc']
    try:
        m = wbrun.load_dict(desc)
    except Exception:
        ctx.count('dict-model-raised')
        return
    ctx.case((case['id'], 'dict'))
    _idempotent(m, desc, ctx, 'dict', {'case': case}, None)


def check_case(case, ctx):
    if case['kind'] == 'dict':
        check_dict_case(case, ctx)
    else:
        check_partial_case(case, ctx)


def plan(tier, seed):
    n, per = (96, 6) if tier == 'quick' else (800, 50)
    specs = [{'kind': 'partial', 'lo': lo, 'hi': lo + per, 'tier': tier}
             for lo in range(0, n, per)]
    n, per = (120, 60) if tier == 'quick' else (1600, 200)
    specs += [{'kind': 'dict', 'lo': lo, 'hi': lo + per, 'tier': tier}
              for lo in range(0, n, per)]
    return specs


def run(spec, ctx):
    case = None
    for i in range(spec['lo'], spec['hi']):
        case = make_case(spec['seed'], i, spec.get('tier', 'quick'))
        if spec['kind'] == 'dict':
            case = {'kind': 'dict', 'id': i, 'desc': case['desc']}
        ctx.open_case({'kind': spec['kind'], 'id': i})
        check_case(case, ctx)
    if case and case['kind'] == 'partial':
        ctx.sample({'outputs': case['outsets'][0], 'form': case['form']})


def finalize(agg, tier):
    c, inc = agg['counters'], []
    for k, floor in (('monitor.partial-models', 400), ('monitor.output-cells', 1200),
                     ('monitor.idempotence-steps', 1500), ('idempotence.full', 200),
                     ('idempotence.partial', 800), ('idempotence.dict', 300),
                     ('partial.smaller-than-full', 300), ('partial.abspath', 40),
                     ('outputs.member', 40), ('outputs.array', 20),
                     ('outputs.rect', 80), ('outputs.cell', 200)):
        if c.get(k, 0) < floor:
            inc.append('monitor %s saw %d events (< %d)' % (k, c.get(k, 0), floor))
    return {'inconclusive': inc}
