"""C12 - the core function library matches its Excel definitions.

Reference-model monitor through the Cell path: for each listed function,
argument tuples over its Excel domain (typed literals, single-cell references,
ranges and array literals; numbers incl. halves and 2-3 digit decimals,
blanks, logicals, text, errors; optional arguments present or absent) are
evaluated by the real code and judged by ref.functions accept-sets; for
aggregations a metamorphic order-invariance monitor runs as well.
"""
import math
import numpy as np
import schedula as sh

from .. import xl
from ..ref import functions as rf, scalar as rs

ID = 'C12'
LEVEL = 'exploration'
RULE = ('a case is (function, argument tuple) where each argument is a typed '
        'literal, a single-cell reference, a range or an array literal; '
        'per function >= 300 (quick) / 3000 (thorough) tuples drawn from '
        'value pools designed for it (halves, 1.15/2.675/1.005-like decimals, '
        'negative numbers, blanks, logicals, numeric and other text, one error '
        'kind; positions 0, 1, len, len+1, negative for text functions); '
        'distinct = distinct (function, formula text, input values); '
        'non-trivial = the reference gave an accept-set and it was compared')
ASSUMPTIONS = [
    'text-to-logical coercion of "TRUE"/"FALSE", date / currency / percent / '
    'thousands-separated text, and non-integer k of LARGE/SMALL are not judged',
    'at most one error kind per case; numbers rendered as text only where the '
    'General form is certain',
    'transcendental results compared with relative tolerance 1e-12; '
    'rounding functions computed in decimal on the shortest decimal form',
]
E = xl.err
NUMS = [0.0, 1.0, -1.0, 2.0, 3.0, 10.0, 0.5, 1.5, 2.5, -0.5, -2.5, 1.15, 2.675,
        1.005, 4.35, 1.25, 0.1, 123.456, -1.15, 7.0, -3.0, 12345.678, 0.3,
        2.345, 8.0, 100.0, 1e6, -7.5, 3.7, 4.0, 6.0, 9.99]
TEXTS = ['abc', 'Hello World', '  a  b ', '', 'a-b-c-d', 'aaa', 'AbC', '12',
         # white space other than the space character (TRIM keeps it)
         ' first line\nsecond   line ', '\ta  b', 'a\xa0 b ', 'x\r\n',
         'x', 'a?c', 'b*', 'abcabc', ' lead', 'trail ', 'a  b   c', '1.5', 'Q']
INTS = [0, 1, 2, 3, 4, 5, -1, 7, 10, 1.5, 2.9]


def lit(v):
    return {'t': 'lit', 'v': v}


def ref(v):
    return {'t': 'ref', 'v': v}


class Gen:
    def __init__(self, rng):
        self.r = rng
        self.err = E(rng.choice(('#N/A', '#DIV/0!', '#VALUE!')))

    def form(self, v, p_ref=0.45):
        if v is sh.EMPTY:
            return ref(v)
        return ref(v) if self.r.random() < p_ref else lit(v)

    def number(self, hostile=0.15):
        r = self.r
        if r.random() < hostile:
            return r.choice((True, False, '12', 'abc', '', sh.EMPTY, self.err, ' 3 ', '1.5',
                             '.5', '-.5', ' .5 ', '5.', '-2'))
        return r.choice(NUMS)

    def text(self, hostile=0.15):
        r = self.r
        if r.random() < hostile:
            return r.choice((12.0, 1.5, True, sh.EMPTY, self.err, 0.0, -3.0))
        return r.choice(TEXTS)

    def any(self):
        r = self.r
        return r.choice((r.choice(NUMS), r.choice(TEXTS), True, False, sh.EMPTY,
                         self.err, r.choice(NUMS), '12'))

    def cellval(self, kinds='ntbBe', p_err=0.06):
        r = self.r
        if r.random() < p_err:
            return self.err
        k = r.choice(kinds)
        if k == 'n':
            return r.choice(NUMS)
        if k == 't':
            return r.choice(('abc', 'x', '', 'Q', 'b', '12'))
        if k == 'b':
            return r.random() < 0.5
        return sh.EMPTY

    def rng(self, kinds='nnntbB', p_err=0.06):
        r = self.r
        rows, cols = r.choice(((1, 3), (3, 1), (2, 2), (1, 1), (2, 3), (4, 1)))
        return {'t': 'rng', 'v': [[self.cellval(kinds, p_err) for _ in range(cols)]
                                  for _ in range(rows)]}

    def arr(self, kinds='nnntb'):
        r = self.r
        rows, cols = r.choice(((1, 3), (3, 1), (2, 2), (1, 2)))
        vals = [[self.cellval(kinds.replace('B', ''), 0.05) for _ in range(cols)]
                for _ in range(rows)]
        vals = [[0.0 if v is sh.EMPTY else v for v in row] for row in vals]
        return {'t': 'arr', 'v': vals}

    def agg_args(self):
        r = self.r
        n = r.randint(1, 4)
        out = []
        for _ in range(n):
            t = r.random()
            if t < 0.4:
                out.append(self.rng())
            elif t < 0.5:
                out.append(self.arr())
            elif t < 0.65:
                out.append(ref(self.cellval('nntbB')))
            else:
                out.append(lit(r.choice((r.choice(NUMS), r.choice(NUMS), True, False,
                                         '12', 'abc', self.err, ' 3 '))))
        return out

    def args_for(self, name):
        r, f = self.r, self.form
        if name in ('ABS', 'INT', 'SIGN', 'SQRT', 'EXP', 'LN', 'LOG10', 'EVEN', 'ODD',
                    'SIN', 'COS', 'TAN', 'ASIN', 'ACOS', 'ATAN', 'SINH', 'COSH', 'TANH'):
            v = self.number()
            if name in ('INT', 'EVEN', 'ODD', 'ABS', 'SIGN') and r.random() < 0.08:
                v = r.choice((1e20, -1e25, 1e19, 3e300))     # beyond 64-bit integers
            if name in ('ASIN', 'ACOS') and isinstance(v, float) and r.random() < 0.7:
                v = r.choice((0.0, 0.5, -0.5, 1.0, -1.0, 0.3, 0.1))
            if name in ('EXP', 'SINH', 'COSH') and isinstance(v, float) and abs(v) > 700:
                v = 3.0
            return [f(v)]
        if name == 'LOG':
            if r.random() < 0.25:       # exact powers of ten: INT(LOG(1000)) is 3
                a = [f(10.0 ** r.randint(0, 15))]
                return a + ([f(10.0)] if r.random() < 0.5 else [])
            a = [f(self.number())]
            if r.random() < 0.7:
                a.append(f(r.choice((2.0, 10.0, 0.5, 1.0, 0.0, -2.0, 8.0, self.number()))))
            return a
        if name in ('POWER', 'MOD'):
            return [f(self.number()), f(r.choice((2.0, 3.0, -1.0, 0.0, 0.5, -2.5, 1.5,
                                                   self.number())))]
        if name in ('ROUND', 'ROUNDUP', 'ROUNDDOWN'):
            return [f(self.number()), f(r.choice((0, 1, 2, 3, -1, -2, 2, 2, 1, self.number(0.5))))]
        if name == 'TRUNC':
            a = [f(self.number())]
            if r.random() < 0.6:
                a.append(f(r.choice((0, 1, 2, -1, 3))))
            return a
        if name in ('CEILING', 'FLOOR'):
            return [f(self.number()), f(r.choice((1.0, 2.0, 0.5, 0.1, -1.0, -2.0, 0.0, 5.0,
                                                   0.25, 3.0, self.number())))]
        if name == 'LEN' or name in ('UPPER', 'LOWER', 'TRIM', 'VALUE'):
            v = self.text(0.3)
            if name == 'VALUE' and r.random() < 0.5:
                v = r.choice(('12', '1.5', ' 3 ', '-2', '1E+2', 'abc', '', '0.5', '+4',
                              '.5', '-.5', '5.', ' .25'))
            return [f(v)]
        if name in ('LEFT', 'RIGHT'):
            a = [f(self.text())]
            if r.random() < 0.75:
                a.append(f(r.choice(INTS + [self.number(0.6)])))
            return a
        if name == 'MID':
            return [f(self.text()), f(r.choice(INTS + [self.number(0.6)])),
                    f(r.choice(INTS + [self.number(0.6)]))]
        if name in ('FIND', 'SEARCH'):
            within = self.text()
            find = r.choice(('a', 'b', 'A', 'bc', '', 'z', 'a?c', 'b*', '?', ' ', 'C',
                             self.text(0.3)))
            a = [f(find), f(within)]
            if r.random() < 0.5:
                a.append(f(r.choice(INTS)))
            return a
        if name == 'REPLACE':
            return [f(self.text()), f(r.choice(INTS)), f(r.choice(INTS)),
                    f(r.choice(('X', '', 'yy', 12.0, self.text(0.3))))]
        if name == 'SUBSTITUTE':
            a = [f(self.text()), f(r.choice(('a', 'b', '-', '', 'aa', 'A', ' ', 'bc'))),
                 f(r.choice(('X', '', '+', 'aa')))]
            if r.random() < 0.5:
                a.append(f(r.choice((1, 2, 3, 4, 5, 0, -1, 1.5))))
            return a
        if name in ('CONCAT', 'CONCATENATE'):
            n = r.randint(1, 4)
            out = []
            for _ in range(n):
                if name == 'CONCAT' and r.random() < 0.3:
                    out.append(self.rng('nntB', 0.05))
                else:
                    out.append(f(r.choice((self.text(0.3), r.choice((1.0, 2.5, 12.0, -3.0))))))
            return out
        if name == 'TEXTJOIN':
            out = [f(r.choice((',', '-', '', ', ', 1.0, sh.EMPTY))),
                   f(r.choice((True, False, 1.0, 0.0)))]
            for _ in range(r.randint(1, 3)):
                if r.random() < 0.4:
                    out.append(self.rng('nttB', 0.04))
                else:
                    out.append(f(r.choice((self.text(0.2), '', 'q', 3.0))))
            return out
        if name in rf.INFO:
            return [f(self.any())]
        if name == 'IF':
            c = r.choice((True, False, 1.0, 0.0, 2.5, sh.EMPTY, 'abc', self.err, -1.0))
            a = [f(c), f(r.choice((1.0, 'y', True, self.err, 'yes')))]
            if r.random() < 0.7:
                a.append(f(r.choice((2.0, 'n', False, self.err, 'no'))))
            return a
        if name == 'IFS':
            out = []
            for _ in range(r.randint(1, 3)):
                out += [f(r.choice((True, False, 0.0, 1.0, 'abc', self.err, sh.EMPTY, False))),
                        f(r.choice((1.0, 'v', False, 5.5)))]
            return out
        if name == 'SWITCH':
            e = r.choice((1.0, 2.0, 'a', 'A', True, 3.0, self.err, 'b'))
            out = [f(e)]
            for _ in range(r.randint(1, 3)):
                out += [f(r.choice((1.0, 2.0, 'a', 'b', True, '1', 3.0))), f(r.choice(('r1', 10.0, 'r2', False)))]
            if r.random() < 0.5:
                out.append(f('dflt'))
            return out
        if name in ('AND', 'OR', 'XOR'):
            out = []
            for _ in range(r.randint(1, 3)):
                t = r.random()
                if t < 0.35:
                    out.append(self.rng('nbbtB', 0.04))
                elif t < 0.55:
                    out.append(ref(self.cellval('nbtB', 0.04)))
                else:
                    out.append(lit(r.choice((True, False, 1.0, 0.0, 'abc', 2.0, self.err, True))))
            return out
        if name == 'NOT':
            return [f(r.choice((True, False, 1.0, 0.0, 'abc', sh.EMPTY, self.err, 2.5)))]
        if name in ('IFERROR', 'IFNA'):
            return [f(r.choice((1.0, 'a', E('#N/A'), E('#DIV/0!'), E('#VALUE!'), True, sh.EMPTY))),
                    f(r.choice(('alt', 0.0, False, E('#N/A'))))]
        if name in rf.AGG:
            if name == 'COUNTBLANK':
                return [self.rng('nntbBB', 0.06)]
            return self.agg_args()
        if name in ('LARGE', 'SMALL'):
            return [self.rng('nnnntB', 0.04), f(r.choice((1, 2, 3, 1, 2, 0, 5, -1, 10)))]
        if name == 'SUMPRODUCT':
            rows, cols = r.choice(((1, 3), (3, 1), (2, 2)))
            n = r.randint(1, 3)
            out = []
            for i in range(n):
                rr, cc = (rows, cols) if r.random() < 0.9 else (cols + 1, rows)
                out.append({'t': 'rng', 'v': [[self.cellval('nnntbB', 0.03) for _ in range(cc)]
                                              for _ in range(rr)]})
            return out
        raise KeyError(name)


def lit_text(v):
    k = xl.kind(v)
    if k == 'err':
        return str(v)
    if isinstance(v, bool):
        return 'TRUE' if v else 'FALSE'
    if k == 'text':
        return '"%s"' % v.replace('"', '""')
    f = float(v)
    s = '%d' % f if f == int(f) and abs(f) < 1e15 else repr(f)
    return '-%s' % s[1:] if s.startswith('-') else s


def _np(v):
    """The numpy twin of a python value: what a referenced cell holds when
    another function computed it (NOT/AND/OR give numpy.bool_, arithmetic
    gives numpy.float64)."""
    if isinstance(v, bool):
        return np.bool_(v)
    if isinstance(v, float):
        return np.float64(v)
    return v


def build(name, args, numpy_refs=False):
    """-> (formula text, inputs dict)"""
    parts, inputs, row = [], {}, 2
    conv = _np if numpy_refs else (lambda v: v)
    for a in args:
        if a['t'] == 'lit':
            parts.append(lit_text(a['v']))
        elif a['t'] == 'ref':
            refn = 'B%d' % row
            inputs[refn] = [[sh.EMPTY]] if a['v'] is sh.EMPTY else conv(a['v'])
            parts.append(refn)
            row += 1
        elif a['t'] == 'rng':
            rows, cols = len(a['v']), len(a['v'][0])
            if (rows, cols) == (1, 1):
                refn = 'B%d' % row
                v = a['v'][0][0]
                inputs[refn] = [[sh.EMPTY]] if v is sh.EMPTY else conv(v)
            else:
                refn = 'B%d:%s%d' % (row, 'BCDEFGHIJ'[cols - 1], row + rows - 1)
                arr = np.empty((rows, cols), object)
                for i, rw in enumerate(a['v']):
                    for j, x in enumerate(rw):
                        arr[i, j] = conv(x)
                inputs[refn] = arr
            parts.append(refn)
            row += rows
        else:
            parts.append('{%s}' % ';'.join(','.join(lit_text(x) for x in rw)
                                           for rw in a['v']))
    return '=%s(%s)' % (name, ','.join(parts)), inputs


def evaluate(formula, inputs):
    from formulas.cell import Cell
    d = sh.Dispatcher()
    c = Cell('A1', formula).compile()
    c.add(d)
    return d(inputs)[c.output]


def enc_args(args):
    from .c11 import enc
    return [{'t': a['t'], 'v': enc(a['v']) if a['t'] in ('lit', 'ref') else
             [[enc(x) for x in row] for row in a['v']]} for a in args]


def dec_args(args):
    from .c11 import dec
    return [{'t': a['t'], 'v': dec(a['v']) if a['t'] in ('lit', 'ref') else
             [[dec(x) for x in row] for row in a['v']]} for a in args]


def argsig(args):
    out = []
    for a in args:
        if a['t'] in ('lit', 'ref'):
            out.append('%s-%s' % (a['t'], _vk(a['v'])))
        else:
            ks = sorted({_vk(x) for row in a['v'] for x in row})
            out.append('%s[%s]' % (a['t'], '+'.join(ks)))
    return ','.join(out)


def _vk(v):
    k = xl.kind(v)
    if k == 'text':
        if v == '':
            return 'text0'
        return 'numtext' if rs.to_number(v) != rs.VALUE else 'text'
    return k


def check(name, args, ctx, numpy_refs=None):
    import zlib
    formula, inputs = build(name, args)
    if numpy_refs is None:
        # one case in three: referenced values arrive as numpy scalars
        numpy_refs = bool(inputs) and zlib.crc32(repr(sorted(
            (k, xl.show(xl.canon(v))) for k, v in inputs.items())).encode()) % 3 == 0
    if numpy_refs:
        formula, inputs = build(name, args, True)
        ctx.count('numpy-typed-references')
    case = {'kind': 'call', 'name': name, 'args': enc_args(args),
            'numpy_refs': numpy_refs}
    ctx.case((formula, sorted((k, xl.show(xl.canon(v))) for k, v in inputs.items())))
    ctx.count('fn.' + name)
    for a in args:
        ctx.see('forms.' + name, a['t'])
    try:
        acc = rf.accept(name, args)
    except Exception as ex:
        ctx.note_inconclusive('reference raised on %s: %r' % (formula, ex))
        return None
    w = {'case': case, 'formula': formula,
         'inputs': {k: xl.show(xl.canon(v)) for k, v in inputs.items()},
         'argsig': argsig(args)}
    try:
        got = xl.canon(xl.unwrap(evaluate(formula, inputs)))
        if got[0] == 'arr' and len(got) == 2 and len(got[1]) == 1:
            got = got[1][0]
    except Exception as ex:
        ctx.violation('raised:%s:%s' % (name, type(ex).__name__), dict(
            w, observed='%s: %s' % (type(ex).__name__, str(ex)[:100]),
            accepted=sorted(map(xl.show, acc or []))))
        return None
    if acc is None:
        ctx.count('not-judged')
        return got
    ctx.count('monitor.reference')
    if not xl.in_accept(got, acc, rel=1e-12):
        if name in ('SUM', 'PRODUCT', 'SUMSQ', 'SUMPRODUCT'):
            rf.REF_NUMTEXT_COUNTS[0] = True
            try:
                alt = rf.accept(name, args)
            finally:
                rf.REF_NUMTEXT_COUNTS[0] = False
            w['matches_when_numeric_text_in_references_counts'] = bool(
                alt) and xl.in_accept(got, alt, rel=1e-12)
        ctx.violation('%s:%s:%s->%s' % (
            name, argsig(args), _cls(got), '/'.join(sorted(_cls(a) for a in acc))), dict(
            w, observed=xl.show(got), accepted=sorted(map(xl.show, acc))))
    if name == 'LOG' and got[0] == 'num':
        v = [a.get('v') for a in args]
        if all(isinstance(x, float) for x in v) and v[0] >= 1 and (len(v) < 2 or v[1] == 10.0):
            k = len('%d' % v[0]) - 1
            if v[0] == 10.0 ** k:
                ctx.count('monitor.log-exact-power')
                if got[1] != float(k):
                    ctx.violation('LOG:power-of-ten-not-exact', dict(
                        w, observed=xl.show(got), accepted=[repr(float(k))]))
    return got


def _cls(c):
    return c[1] if c[0] == 'err' else c[0]


def check_order_invariance(name, args, ctx, rng):
    """Aggregations: any permutation of arguments / range elements."""
    if len({str(x) for a in args for x, _ in rf.items(a) if xl.kind(x) == 'err'}) > 1:
        return
    base = None
    variants = [args]
    for _ in range(2):
        perm = [dict(a) for a in args]
        rng.shuffle(perm)
        for a in perm:
            if a['t'] in ('rng', 'arr'):
                flat = [x for row in a['v'] for x in row]
                rng.shuffle(flat)
                cols = len(a['v'][0])
                a['v'] = [flat[i:i + cols] for i in range(0, len(flat), cols)]
        variants.append(perm)
    outs = []
    for v in variants:
        f, inp = build(name, v)
        try:
            g = xl.canon(xl.unwrap(evaluate(f, inp)))
            if g[0] == 'arr' and len(g) == 2 and len(g[1]) == 1:
                g = g[1][0]
        except Exception:
            return
        outs.append((f, g))
    ctx.count('monitor.order-invariance')
    for f, g in outs[1:]:
        if not xl.same(g, outs[0][1], rel=1e-12):
            ctx.violation('order-dependent:%s' % name, {
                'case': {'kind': 'call', 'name': name, 'args': enc_args(args)},
                'formula': outs[0][0], 'permuted': f,
                'observed': xl.show(g), 'accepted': [xl.show(outs[0][1])]})
            return


def plan(tier, seed):
    names = list(rf.ALL)
    n = 16 if tier == 'quick' else 48
    per = 320 if tier == 'quick' else 3200
    return [{'kind': 'fns', 'names': names[i::n], 'per': per} for i in range(n)]


def check_case(case, ctx):
    check(case['name'], dec_args(case['args']), ctx, case.get('numpy_refs'))


def run(spec, ctx):
    rng = ctx.rng
    for name in spec['names']:
        g = Gen(rng)
        for i in range(spec['per']):
            if i % 40 == 0:
                g = Gen(rng)
            args = g.args_for(name)
            ctx.open_case({'name': name})
            check(name, args, ctx)
            if name in rf.AGG and name != 'COUNTBLANK' and i % 4 == 0:
                check_order_invariance(name, args, ctx, rng)
    ctx.sample({'function': name, 'formula': build(name, args)[0]})


def finalize(agg, tier):
    c, inc = agg['counters'], []
    for name in rf.ALL:
        if c.get('fn.' + name, 0) < 100:
            inc.append('function %s observed with %d tuples (< 100)' % (
                name, c.get('fn.' + name, 0)))
    for name in rf.AGG:
        forms = set(agg['sets'].get('forms.' + name, ()))
        if name != 'COUNTBLANK' and not ({'lit', 'rng'} <= forms):
            inc.append('aggregation %s: typed/referenced forms seen: %s' % (
                name, sorted(forms)))
    if c.get('monitor.reference', 0) < 15000:
        inc.append('monitor.reference saw %d events' % c.get('monitor.reference', 0))
    return {'inconclusive': inc[:6], 'coverage': {
        'functions': len(rf.ALL),
        'judged_fraction': round(c.get('monitor.reference', 0) / max(
            1, c.get('monitor.reference', 0) + c.get('not-judged', 0)), 3)}}
