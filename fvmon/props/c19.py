"""C19 - lookup and criteria functions agree with their search definitions.

Reference-model monitor (ref.lookup: linear-scan definitions) over
systematically generated key vectors, tables and criteria, evaluated by the
real code through the Cell path, plus a differential monitor: VLOOKUP /
HLOOKUP / LOOKUP must return what the library's own INDEX of its own MATCH
on the key column / row returns.
"""
import random
import schedula as sh

from .. import xl
from ..ref import lookup as rl, scalar as rs
from .c12 import build, evaluate, enc_args, lit, ref

ID = 'C19'
LEVEL = 'exploration'
RULE = ('a case is (function, arguments); MATCH: strictly ascending / '
        'descending single-type vectors of length 1-6 (approximate modes, '
        'mode given or omitted) and arbitrary mixed-type vectors with '
        'duplicates and case variants (exact mode), as row or column, as range '
        'or array literal; lookup values below / equal to / between / above '
        'every element, of another type, wildcard patterns; INDEX: every (row, '
        'col) of tables up to 6x6 incl. one step outside and negative; LOOKUP '
        '/ VLOOKUP / HLOOKUP: the same keys on tables up to 6x6, every result '
        'column incl. 0 and n+1, sorted or exact; COUNTIF / SUMIF / AVERAGEIF: '
        'ranges with numbers, duplicates, text in several cases, numeric-'
        'looking text, logicals and blanks x criteria (6 operators x number / '
        'text / numeric text operands, plain values, wildcards); distinct = '
        'distinct (formula, inputs)')
ASSUMPTIONS = [
    'approximate modes are only exercised on strictly sorted single-type '
    'vectors (the quantifier of the property)',
    'for the <> criterion cells of another type than the operand may or may '
    'not count (statement vs Excel); numeric-looking text may or may not '
    'satisfy a numeric criterion; relational text criteria are judged only '
    'for ASCII letter/digit/blank strings; ~-escaped wildcards are not judged',
    'errors inside the searched data and blank criteria are not generated '
    '(error propagation is C11)',
]
WORDS = ['apple', 'Bob', 'cat', 'Dog', 'egg', 'fig', 'Goat', 'hat', 'ink', 'Jam']
NUMS = [-7.5, -2.0, 0.0, 1.0, 2.5, 3.0, 4.0, 10.0, 12.5, 100.0, 1000.0]
MIXED = [1.0, 2.0, 2.0, 3.5, -1.0, 0.0, 'a', 'A', 'b', 'ab', 'Ab', 'abc', 'k', 'K',
         'x y', '10', '3.5', True, False, 'TRUE', 7.0,
         # texts holding the wildcard characters themselves
         'a*c', 'what', 'a?c', '*', 'axc',
         # and the escape character
         'a~', 'a~c', '~']


def rng_arg(rows):
    return {'t': 'rng', 'v': rows}


def arr_arg(rows):
    return {'t': 'arr', 'v': rows}


def _shape(vec, as_row):
    return [list(vec)] if as_row else [[v] for v in vec]


def _between(a, b):
    if isinstance(a, str):
        return a + 'm'
    return (a + b) / 2.0


def sorted_vector(rng, n, kind, descending):
    pool = NUMS if kind == 'n' else sorted(WORDS, key=str.casefold)
    idx = sorted(rng.sample(range(len(pool)), n))
    vec = [pool[i] for i in idx]
    return vec[::-1] if descending else vec


def keys_for(vec, kind):
    """below / equal / between / above every element + another type"""
    asc = sorted(vec, key=lambda v: v.casefold() if isinstance(v, str) else v)
    lo = (asc[0] - 1.0) if kind == 'n' else 'Aardvark'
    hi = (asc[-1] + 1.0) if kind == 'n' else 'zzz'
    keys = [lo, hi] + list(asc)
    keys += [_between(a, b) for a, b in zip(asc, asc[1:])]
    if kind == 't':
        keys += [v.upper() for v in asc[:2]] + [v.lower() for v in asc[-1:]]
    keys.append('m' if kind == 'n' else 5.0)        # another type
    keys.append(True)
    return keys


def judge(ctx, name, args, acc, fam, extra=None):
    import zlib
    formula, inputs = build(name, args)
    # one case in three: referenced values arrive as numpy scalars (what a
    # cell computed by NOT / AND / arithmetic holds)
    numpy_refs = bool(inputs) and zlib.crc32(repr(sorted(
        (k, xl.show(xl.canon(v))) for k, v in inputs.items())).encode()) % 3 == 0
    if numpy_refs:
        formula, inputs = build(name, args, True)
        ctx.count('numpy-typed-references')
    ctx.case((formula, sorted((k, xl.show(xl.canon(v))) for k, v in inputs.items())))
    ctx.count('fn.' + name)
    w = dict({'case': {'kind': 'call', 'name': name, 'args': enc_args(args),
                       'family': fam}, 'referenced_values_as_numpy_scalars': numpy_refs,
              'formula': formula,
              'inputs': {k: xl.show(xl.canon(v)) for k, v in inputs.items()}},
             **(extra or {}))
    try:
        got = xl.canon(xl.unwrap(evaluate(formula, inputs)))
        if got[0] == 'arr' and len(got) == 2 and len(got[1]) == 1:
            got = got[1][0]
    except Exception as ex:
        ctx.violation('raised:%s:%s' % (name, type(ex).__name__), dict(
            w, observed='%s: %s' % (type(ex).__name__, str(ex)[:100]),
            accepted=sorted(map(xl.show, acc or []))))
        return None
    if acc is None:
        ctx.count('not-judged')
        return got
    ctx.count('monitor.reference')
    ctx.count('monitor.reference.' + name)
    if not xl.in_accept(got, acc, rel=1e-12):
        ctx.violation('%s:%s:%s->%s' % (name, fam, _cls(got), '/'.join(sorted(
            _cls(a) for a in acc))), dict(
            w, observed=xl.show(got), accepted=sorted(map(xl.show, acc))))
    return got


def _cls(c):
    return c[1] if c[0] == 'err' else c[0]


def _form(rng, v):
    return ref(v) if rng.random() < 0.4 else lit(v)


def _vec_arg(rng, rows):
    if rng.random() < 0.3 and all(x is not sh.EMPTY for r in rows for x in r):
        return arr_arg(rows)
    return rng_arg(rows)


# -- families ---------------------------------------------------------------------

def run_match(rng, ctx, n_cases):
    for _ in range(n_cases):
        kind = rng.choice('nnt')
        mt = rng.choice((1, 1, -1, None))
        n = rng.randint(1, 6)
        vec = sorted_vector(rng, n, kind, descending=(mt == -1))
        as_row = rng.random() < 0.5
        varg = _vec_arg(rng, _shape(vec, as_row))
        for key in keys_for(vec, kind):
            args = [_form(rng, key), varg] + ([] if mt is None else [lit(float(mt))])
            judge(ctx, 'MATCH', args, rl.match(key, vec, 1 if mt is None else mt),
                  'approx%s:%s' % ({1: '+1', -1: '-1', None: '-default'}[mt], kind))
    run_match_operator_order(rng, ctx, max(4, n_cases // 4))
    for _ in range(n_cases):
        n = rng.randint(1, 6)
        vec = [rng.choice(MIXED) for _ in range(n)]
        varg = _vec_arg(rng, _shape(vec, rng.random() < 0.5))
        keys = list(vec) + [v.swapcase() for v in vec if isinstance(v, str)]
        keys += [99.0, 'zz', 'a*', '?b', '*', 'A?', '*b*', 'k', 2.0, False, '1*',
                 # ~ makes the next wildcard character literal
                 'a~*c', 'a~?c', '~*', '~**', 'a*c', 'a?c', 'wh~?t',
                 # ~~ is the character ~ (then a wildcard, or the end)
                 'a~~*', 'a~~', '~~', '~~*', 'a~~?', 'a~~c', '*~~', 'a~~~*c']
        for key in keys:
            fam = 'exact:' + ('wildcard' if isinstance(key, str) and rl.wildcard(key)
                              else rl.tid(key))
            judge(ctx, 'MATCH', [_form(rng, key), varg, lit(0.0)],
                  rl.match(key, vec, 0), fam)


# texts whose order depends on how case is folded (characters between 'Z' and
# 'a'): "sorted" is taken from the library's own comparison operators (C02's
# total order), and the positions from the linear definition over them
ODD_WORDS = ['cost', 'costs', 'cost_total', 'cost_unit', 'COST^2', 'cost[1]', 'a_b',
             'aZb', 'a`b', 'a\\b', 'a]b', 'ab', 'A_', 'AZ', 'a', '_a', 'Za', '^', 'z']
_OPS = {}


def _lib_cmp(op, a, b):
    import formulas
    if op not in _OPS:
        _OPS[op] = formulas.Parser().ast('=A1%sB1' % op)[1].compile()
    return bool(xl.scalar(_OPS[op](a, b)))


def run_match_operator_order(rng, ctx, n_cases):
    import functools
    for _ in range(n_cases):
        mt = rng.choice((1, -1))
        pick = rng.sample(ODD_WORDS, rng.randint(2, 6))
        vec = []
        for w in sorted(pick, key=functools.cmp_to_key(
                lambda a, b: -1 if _lib_cmp('<', a, b) else (1 if _lib_cmp('<', b, a) else 0))):
            if not vec or _lib_cmp('<', vec[-1], w):
                vec.append(w)                              # strictly ascending
        if mt == -1:
            vec = vec[::-1]
        varg = _vec_arg(rng, _shape(vec, rng.random() < 0.5))
        res = [float(10 * (i + 1)) for i in range(len(vec))]
        for key in rng.sample(ODD_WORDS, 8) + [v.swapcase() for v in vec[:2]]:
            ok = [i for i, v in enumerate(vec)
                  if _lib_cmp('<=' if mt == 1 else '>=', v, key)]
            want = xl.c_num(float(ok[-1] + 1)) if ok else xl.c_err('#N/A')
            ctx.count('monitor.operator-order')
            judge(ctx, 'MATCH', [_form(rng, key), varg, lit(float(mt))], {want},
                  'approx%+d:operator-order' % mt)
            if mt == 1:
                wantl = xl.c_num(res[ok[-1]]) if ok else xl.c_err('#N/A')
                judge(ctx, 'LOOKUP', [_form(rng, key), varg,
                                      _vec_arg(rng, _shape(res, rng.random() < 0.5))],
                      {wantl}, 'operator-order')


def _table(rng, rows, cols, keys=None):
    t = []
    for i in range(rows):
        row = [rng.choice(MIXED + [sh.EMPTY, 42.0, 'zz']) for _ in range(cols)]
        if keys is not None:
            row[0] = keys[i]
        t.append(row)
    return t


def run_index(rng, ctx, n_cases):
    for _ in range(n_cases):
        rows, cols = rng.randint(1, 6), rng.randint(1, 6)
        t = _table(rng, rows, cols)
        targ = _vec_arg(rng, t)
        for r in range(-1, rows + 2):
            for c in range(-1, cols + 2):
                if r == 0 or c == 0:
                    continue
                if (r < 0 or c < 0) and rng.random() < 0.7:
                    continue
                rr, cc = (r + 0.9, c + 0.5) if rng.random() < 0.1 and r > 0 and c > 0 \
                    else (float(r), float(c))
                judge(ctx, 'INDEX', [targ, _form(rng, rr), _form(rng, cc)],
                      rl.index(t, rr, cc), 'table:%s' % (
                          'inside' if 0 < r <= rows and 0 < c <= cols else 'outside'))
        if rows == 1 or cols == 1:
            for k in range(-1, max(rows, cols) + 2):
                if k == 0:
                    continue
                judge(ctx, 'INDEX', [targ, _form(rng, float(k))], rl.index(t, k),
                      'vector:%s' % ('inside' if 0 < k <= max(rows, cols) else 'outside'))


def _lib_index_of_match(key, keys, table, col, mode, horizontal, ctx):
    """INDEX(table, MATCH(key, key vector, mode), col) by the library itself."""
    kv = rng_arg(_shape(keys, horizontal))
    p = xl.canon(xl.scalar(evaluate(*build('MATCH', [lit(key), kv, lit(float(mode))]))))
    if p[0] != 'num':
        return p
    args = [rng_arg(table), lit(float(col)), lit(p[1])] if horizontal else \
        [rng_arg(table), lit(p[1]), lit(float(col))]
    return xl.canon(xl.scalar(evaluate(*build('INDEX', args))))


def run_lookup(rng, ctx, n_cases):
    for _ in range(n_cases):
        kind = rng.choice('nnt')
        n = rng.randint(1, 6)
        exact = rng.random() < 0.4
        if exact:
            keys = [rng.choice([m for m in MIXED if rl.tid(m) in 'nt']) for _ in range(n)]
        else:
            keys = sorted_vector(rng, n, kind, False)
        width = rng.randint(1, 6)
        table = _table(rng, n, width, keys)
        horizontal = rng.random() < 0.5
        name = 'HLOOKUP' if horizontal else 'VLOOKUP'
        targ_rows = [list(x) for x in zip(*table)] if horizontal else table
        targ = rng_arg(targ_rows)
        probe = keys_for(keys, kind) if not exact else (
            list(keys) + [k.swapcase() for k in keys if isinstance(k, str)] +
            [99.0, 'zz', 'a*', '?b'])
        for key in probe:
            for col in sorted({1, width, rng.randint(1, width), width + 1, 0}):
                mode_args = [lit(False)] if exact else rng.choice(([], [lit(True)]))
                acc = rl.vlookup(key, table, col, not exact)
                got = judge(ctx, name, [_form(rng, key), targ, lit(float(col))] + mode_args,
                            acc, '%s:col-%s' % ('exact' if exact else 'sorted',
                                                'inside' if 1 <= col <= width else
                                                'zero' if col == 0 else 'beyond'))
                if got is None or not 1 <= col <= width:
                    continue
                try:
                    want = _lib_index_of_match(key, keys, targ_rows, col,
                                               0 if exact else 1, horizontal, ctx)
                except Exception:
                    ctx.count('differential.raised')
                    continue
                ctx.count('monitor.index-of-match')
                if want == xl.BLANK:
                    want = xl.c_num(0)
                if not xl.same(got, want, rel=1e-12):
                    ctx.violation('%s:differs-from-INDEX-of-MATCH:%s->%s' % (
                        name, _cls(got), _cls(want)), {
                        'case': {'kind': 'lookup-diff', 'name': name,
                                 'key': enc_args([lit(key)])[0]['v'],
                                 'table': enc_args([rng_arg(targ_rows)])[0]['v'],
                                 'col': col, 'exact': exact},
                        'observed': xl.show(got), 'accepted': [xl.show(want)]})
        # LOOKUP, vector forms (sorted data only)
        if not exact:
            res = [row[-1] for row in table]
            for key in probe:
                if rng.random() < 0.5:
                    args = [_form(rng, key), rng_arg(_shape(keys, horizontal)),
                            rng_arg(_shape(res, horizontal))]
                    acc = rl.lookup(key, keys, res)
                    fam = 'vectors'
                else:
                    args = [_form(rng, key), rng_arg(_shape(keys, horizontal))]
                    acc = rl.lookup(key, keys)
                    fam = 'one-vector'
                got = judge(ctx, 'LOOKUP', args, acc, fam)
                if got is not None and fam == 'vectors':
                    try:
                        p = xl.canon(xl.scalar(evaluate(*build('MATCH', [
                            lit(key), rng_arg(_shape(keys, horizontal)), lit(1.0)]))))
                        want = p if p[0] != 'num' else xl.canon(xl.scalar(evaluate(*build(
                            'INDEX', [rng_arg(_shape(res, horizontal)), lit(p[1])]))))
                    except Exception:
                        ctx.count('differential.raised')
                        continue
                    ctx.count('monitor.index-of-match')
                    if want == xl.BLANK:
                        want = xl.c_num(0)
                    if not xl.same(got, want, rel=1e-12):
                        ctx.violation('LOOKUP:differs-from-INDEX-of-MATCH:%s->%s' % (
                            _cls(got), _cls(want)), {
                            'case': {'kind': 'lookup-diff', 'name': 'LOOKUP',
                                     'key': enc_args([lit(key)])[0]['v'],
                                     'keys': enc_args([rng_arg([keys])])[0]['v'],
                                     'results': enc_args([rng_arg([res])])[0]['v']},
                            'observed': xl.show(got), 'accepted': [xl.show(want)]})


CELLS = [1.0, 2.0, 2.0, 5.0, -3.0, 0.0, 10.0, 3.5, 'a', 'A', 'b', 'B', 'ab', 'abc',
         'cat', 'Dog', 'x y', '10', '3.5', '2', True, False, sh.EMPTY, sh.EMPTY, 100.0,
         # multi-line texts: wildcards cover line feeds too
         'Total\n2024', 'tota\n', 'a\nb',
         # error values among the cells: no order with numbers or texts
         xl.err('#N/A'), xl.err('#DIV/0!'), xl.err('#NAME?'),
         # texts only python reads as numbers: text for a criterion
         '1_0', 'inf', 'nan', 'Infinity', 10.0,
         # the escape character of patterns
         'a~', 'a~b', '~', 'a*', 'a?']
OPS = ['=', '<>', '<', '>', '<=', '>=', '']


def criteria_for(rng, cells):
    out = []
    pool = [c for c in cells if c is not sh.EMPTY and xl.kind(c) != 'err'] + [
        4.0, 'c', 'zebra', 'B', 2.0]
    for _ in range(10):
        x = rng.choice(pool)
        op = rng.choice(OPS)
        if isinstance(x, bool):
            out.append(x if op == '' else op + ('TRUE' if x else 'FALSE'))
        elif isinstance(x, str):
            out.append(op + x)
        else:
            txt = ('%d' % x) if x == int(x) else repr(x)
            out.append(x if op == '' and rng.random() < 0.5 else op + txt)
    out += rng.sample(['a*', '?', '*b', '<>a*', 'A?', '*', '=?b*', '<b', '>=b', '<>b',
                       '<=Cat', '>10', '<>?', 'total*', 'tota?', '<>total*', 'a?b',
                       '*2024'], 6)
    out += rng.sample(['a~~*', 'a~~', '~~', '~~*', 'a~~?', 'a~*', 'a~?', '<>a~~*', '=a~~',
                       '*~~', 'a~~b', '<>~~', 'a~~~*'], 3)     # ~~ is the character ~
    out.append(rng.choice(['<>', '=']))     # a bare operator: (not) blank cells
    # an error value as the criterion (the `?` of #NAME? is not a wildcard)
    e = rng.choice(['#NAME?', '#N/A', '#DIV/0!', '#name?'])
    out.append(rng.choice([xl.err(e.upper()), e, '=' + e, '<>' + e]))
    return out


def run_criteria(rng, ctx, n_cases):
    for _ in range(n_cases):
        n = rng.randint(2, 8)
        cells = [rng.choice(CELLS) for _ in range(n)]
        vals = [rng.choice([1.0, 2.5, -4.0, 10.0, 0.0, 7.0, 'note', sh.EMPTY, True, 3.0])
                for _ in range(n)]
        as_row = rng.random() < 0.3
        carg, varg = rng_arg(_shape(cells, as_row)), rng_arg(_shape(vals, as_row))
        for crit in criteria_for(rng, cells):
            pc = rl.parse_criterion(crit)
            fam = 'unparsed' if pc is None else '%s:%s' % (pc[0], 'bare' if pc[1] is rl.BLANK else (
                'wildcard' if rl.tid(pc[1]) == 't' and rl.wildcard(pc[1]) else rl.tid(pc[1])))
            cform = _form(rng, crit)
            judge(ctx, 'COUNTIF', [carg, cform], rl.countif(cells, crit), fam)
            which = rng.random()
            if which < 0.5:
                judge(ctx, 'SUMIF', [carg, cform, varg], rl.sumif(cells, crit, vals), fam)
                judge(ctx, 'AVERAGEIF', [carg, cform, varg],
                      rl.averageif(cells, crit, vals), fam)
            else:
                judge(ctx, 'SUMIF', [carg, cform], rl.sumif(cells, crit), fam)
                judge(ctx, 'AVERAGEIF', [carg, cform], rl.averageif(cells, crit), fam)


FAMILIES = {'match': run_match, 'index': run_index, 'lookup': run_lookup,
            'criteria': run_criteria}


def plan(tier, seed):
    q = tier == 'quick'
    specs = []
    for fam, n, shards in (('match', 40 if q else 400, 3), ('index', 12 if q else 120, 2),
                           ('lookup', 14 if q else 140, 5), ('criteria', 60 if q else 600, 4)):
        for s in range(shards if q else shards * 2):
            specs.append({'kind': fam, 'n': n})
    return specs


def check_case(case, ctx):
    from .c12 import dec_args
    if case['kind'] == 'call':
        name, args = case['name'], dec_args(case['args'])
        if str(case.get('family', '')).endswith('operator-order'):
            v = [_plain(a) for a in args]
            vec = [x for row in v[1] for x in row]
            mt = int(v[2]) if name == 'MATCH' else 1
            ok = [i for i, x in enumerate(vec)
                  if _lib_cmp('<=' if mt == 1 else '>=', x, v[0])]
            if name == 'MATCH':
                acc = {xl.c_num(float(ok[-1] + 1)) if ok else xl.c_err('#N/A')}
            else:
                res = [x for row in v[2] for x in row]
                acc = {xl.c_num(res[ok[-1]]) if ok else xl.c_err('#N/A')}
        else:
            acc = _accept(name, args)
        judge(ctx, name, args, acc, case.get('family', 'replay'))
    else:
        ctx.count('replay.differential-not-replayed')


def _plain(a):
    if a['t'] in ('lit', 'ref'):
        return a['v']
    return a['v']


def _accept(name, args):
    v = [_plain(a) for a in args]
    flat = lambda rows: [x for row in rows for x in row]
    if name == 'MATCH':
        return rl.match(v[0], flat(v[1]), int(v[2]) if len(v) > 2 else 1)
    if name == 'INDEX':
        return rl.index(v[0], *v[1:])
    if name == 'LOOKUP':
        return rl.lookup(v[0], flat(v[1]), flat(v[2]) if len(v) > 2 else None)
    if name in ('VLOOKUP', 'HLOOKUP'):
        return rl.vlookup(v[0], v[1], v[2], bool(v[3]) if len(v) > 3 else True,
                          horizontal=(name == 'HLOOKUP'))
    if name == 'COUNTIF':
        return rl.countif(flat(v[0]), v[1])
    if name == 'SUMIF':
        return rl.sumif(flat(v[0]), v[1], flat(v[2]) if len(v) > 2 else None)
    if name == 'AVERAGEIF':
        return rl.averageif(flat(v[0]), v[1], flat(v[2]) if len(v) > 2 else None)
    return None


def run(spec, ctx):
    FAMILIES[spec['kind']](ctx.rng, ctx, spec['n'])
    ctx.sample({'family': spec['kind']})


def finalize(agg, tier):
    c, inc = agg['counters'], []
    for name, floor in (('MATCH', 3000), ('INDEX', 500), ('LOOKUP', 300),
                        ('VLOOKUP', 800), ('HLOOKUP', 800), ('COUNTIF', 2000),
                        ('SUMIF', 2000), ('AVERAGEIF', 2000)):
        k = 'monitor.reference.' + name
        if c.get(k, 0) < floor:
            inc.append('monitor %s saw %d events (< %d)' % (k, c.get(k, 0), floor))
    if c.get('monitor.index-of-match', 0) < 1500:
        inc.append('monitor index-of-match saw %d events (< 1500)' % c.get(
            'monitor.index-of-match', 0))
    if c.get('monitor.operator-order', 0) < 150:
        inc.append('monitor operator-order saw %d events (< 150)' % c.get(
            'monitor.operator-order', 0))
    if c.get('not-judged', 0) * 4 > c.get('monitor.reference', 1):
        inc.append('%d calls were not judged by the reference' % c.get('not-judged', 0))
    return {'inconclusive': inc}
