"""C16 - writing a solution reproduces it cell for cell.

Round-trip monitor.  For generated workbooks (loaded from .xlsx so that the
model owns real books) a solution is computed - plain, with overridden inputs
of every kind (numbers, text incl. text that looks like a formula or a number,
logicals, errors, blank, empty text; overrides that change only the *kind*
of the stored value, e.g. 1 -> TRUE, 'label' -> blank), and with restricted
outputs - and written

  (a) into fresh books                      write(solution=s)
  (b) into fresh books used twice           write(write(solution=s1), solution=s2)
  (c) into the loaded books                 write(m.books, solution=s)
  (d) to disk and read back with openpyxl   write(dirpath=...)

The oracle is computed from the solution itself, never from write():
every cell covered by a solved cell or range node must hold, at its own sheet
and coordinates, the solved value in its Excel form with the same kind
(number / text / logical / error text; blank and '' as empty cell); every other
cell of the target books must be exactly as it was before the call (value and
data type); and compare(*written files) must report no difference.
"""
import os
import random

import numpy as np
import schedula as sh

from .. import xl, wbrun
from ..gen import workbooks as gw
from ..ref.ranges import rect_of, col_name

ID = 'C16'
LEVEL = 'exploration'
RULE = ('a case is (workbook description, list of solutions each = overrides + '
        'optional output restriction, write mode); overrides target constant '
        'cells, unpopulated cells and formula cells with values of every kind '
        'and with kind-only changes of the stored value; distinct = distinct '
        '(description, solution, mode); non-trivial = at least one written '
        'cell was compared with the solution')
ASSUMPTIONS = [
    'the Excel form of a solved value: number -> numeric cell (int or float, '
    'never bool), text -> string cell with exactly that text, logical -> '
    'boolean cell, error -> its text (#DIV/0! ...), blank and empty text -> '
    'empty cell',
    'ranges of more than 4096 cells (whole rows) are checked on the cells '
    'that smaller solved nodes cover; where several solved nodes cover one '
    'cell with different values (possible after range overrides, see the C07 '
    'findings) any of those values is accepted',
    'numbers are kept below 1e10: the xlsx number format keeps 15-16 digits, '
    'so compare() with its absolute tolerance cannot hold beyond that',
]

KINDS = {'n': 'number', 's': 'text', 'b': 'logical', 'e': 'error', 'f': 'formula',
         'd': 'date', 'inlineStr': 'text', 'str': 'text'}
HOSTILE = [5.0, -3.5, 0.0, 1.0, 'txt', '', True, False, '#N/A', '#DIV/0!',
           '=1+1', '12', 'TRUE', '#notanerror', ' lead', "'quoted", 123456789.125, 0.1 + 0.2,
           'BLANK']


def _lib_value(v):
    if v == 'BLANK':
        return [[sh.EMPTY]]
    if isinstance(v, str) and v.startswith('#'):
        try:
            return xl.err(v)        # error constants of the description
        except KeyError:
            return v                # '#notanerror' is just text
    return v


def _canon_value(v):
    if v == 'BLANK':
        return xl.BLANK
    if isinstance(v, str) and v in ('#N/A', '#DIV/0!'):
        return xl.c_err(v)
    return xl.canon(v)


def solved_cells(sol):
    """(sheet_id, col, row) -> canonical solved value, from the solution only."""
    from formulas.ranges import Ranges
    out, big = {}, []
    items = sorted(((str(k), k, v) for k, v in sol.items()
                    if not isinstance(k, sh.Token)), key=lambda x: x[0])
    for _, k, r in items:
        if not isinstance(r, Ranges):
            try:
                r = Ranges().push(k, r)
            except Exception:
                continue
        if len(r.ranges) != 1:
            continue
        sid, c1, r1, c2, r2 = rect_of(r.ranges[0])
        if not sid:
            continue
        n = (c2 - c1 + 1) * (r2 - r1 + 1)
        if n > 4096:
            big.append((sid, c1, r1, c2, r2, r))
            continue
        try:
            val = r.value
        except Exception:
            continue
        for i, rr in enumerate(range(r1, r2 + 1)):
            for j, cc in enumerate(range(c1, c2 + 1)):
                out.setdefault((sid, cc, rr), []).append(xl.canon(val[i, j]))
    return out, big


def expected_form(c):
    """canonical value -> (kind, python value) expected in the cell"""
    if c[0] == 'num':
        return 'number', c[1]
    if c[0] == 'text':
        return ('empty', None) if c[1] == '' else ('text', c[1])
    if c[0] == 'bool':
        return 'logical', c[1]
    if c[0] == 'err':
        return 'error', c[1]
    if c[0] == 'blank':
        return 'empty', None
    return 'foreign', c


def cell_form(cell):
    """openpyxl cell -> (kind, value)"""
    v = cell.value
    if v is None or v == '':
        return 'empty', None
    if isinstance(v, bool):
        return 'logical', v
    if isinstance(v, (int, float)):
        return 'number', float(v)
    if isinstance(v, str):
        if cell.data_type == 'e':
            return 'error', v
        if cell.data_type == 'f':
            return 'formula', v
        return 'text', v
    return 'foreign', repr(v)


def _same_form(got, want):
    if want[0] == 'error':      # an error text may be stored as error or string cell
        return got[0] in ('error', 'text') and got[1] == want[1]
    if got[0] != want[0]:
        return False
    if want[0] == 'number':
        return got[1] == want[1] or abs(got[1] - want[1]) <= 1e-12 * abs(want[1])
    return got[1] == want[1]


def snapshot(books):
    """(BOOK, SHEET, coord) -> (kind, value, data_type) of every existing cell"""
    from formulas.excel import BOOK
    out = {}
    for fname, d in books.items():
        for ws in d[BOOK].worksheets:
            for coord, cell in list(ws._cells.items()):
                f = cell_form(cell)
                if f[0] != 'empty':
                    out[(fname.upper(), ws.title.upper(),
                         '%s%d' % (col_name(coord[1]), coord[0]))] = f + (cell.data_type,)
    return out


def _sheet_key(sid):
    # "[b1.xlsx]DATA" -> ('B1.XLSX', 'DATA')
    if sid[:1] == "'" and sid[-1:] == "'":
        sid = sid[1:-1].replace("''", "'")
    i = sid.index(']')
    return sid[1:i].upper(), sid[i + 1:].upper()


def judge_books(ctx, w, mode, sol, before, after, sig_extra=''):
    """before/after: snapshots of the target books; sol: the written solution."""
    cells, big = solved_cells(sol)
    n = 0
    written = set()
    for (sid, c, r), vals in cells.items():
        bk, shn = _sheet_key(sid)
        coord = '%s%d' % (col_name(c), r)
        key = (bk, shn, coord)
        written.add(key)
        wants = {expected_form(v) for v in vals}
        for bsid, c1, r1, c2, r2, rg in big:
            # a whole row/column node covering the cell may hold another value
            # (solutions with range overrides are not always consistent: C07)
            if bsid == sid and c1 <= c <= c2 and r1 <= r <= r2:
                try:
                    wants.add(expected_form(xl.canon(rg.value[r - r1, c - c1])))
                except Exception:
                    pass
        got = after.get(key, ('empty', None, None))[:2]
        n += 1
        if not any(_same_form(got, want) for want in wants):
            want = sorted(wants, key=repr)[0]
            prev = before.get(key, ('empty', None, None))
            ctx.violation('written-differs:%s:%s->%s:%s' % (
                mode, got[0], want[0],
                'over-' + prev[0] if mode in ('loaded', 'reused') else 'fresh'), dict(
                w, cell="'[%s]%s'!%s" % (bk, shn, coord), mode=mode,
                observed='%s %r' % got, previous_content='%s %r' % prev[:2],
                accepted=['%s %r' % x for x in sorted(wants, key=repr)]))
    ctx.count('monitor.written-cells', n)
    ctx.count('written.%s' % mode, n)
    # cells outside the solution are untouched
    inbig = lambda key: any(
        _sheet_key(sid) == key[:2] and c1 <= gw.split_addr(key[2])[0] <= c2
        and r1 <= gw.split_addr(key[2])[1] <= r2 for sid, c1, r1, c2, r2, _ in big)
    m = 0
    for key in set(before) | set(after):
        if key in written or inbig(key):
            continue
        m += 1
        b, a = before.get(key, ('empty', None, None)), after.get(key, ('empty', None, None))
        if b != a:
            ctx.violation('outside-changed:%s:%s->%s' % (mode, b[0], a[0]), dict(
                w, cell="'[%s]%s'!%s" % key, mode=mode, observed='%s %r' % a[:2],
                accepted=['%s %r (content before write)' % b[:2]]))
    ctx.count('monitor.untouched-cells', m)
    return n


def make_case(seed, i):
    from .c07 import _ranges_over_arrays
    from .c08 import _rect_nodes
    rng = random.Random('fvmon/C16/%s/%s' % (seed, i))
    desc = gw.gen(rng)
    if i % 2 == 0:
        desc["empty_sheet"] = True     # files keep a sheet that holds nothing
    if i % 3 == 0:
        _ranges_over_arrays(rng, desc)
    rects = _rect_nodes(desc)
    consts = wbrun.constant_cells(desc)
    forms = wbrun.formula_cells(desc)
    sols = []
    for j in range(3):
        X = []
        for _ in range(rng.randint(0, 4) if j else 0):
            t = rng.random()
            if t < 0.7 and consts:
                key = rng.choice(consts)
                old = _cellv(desc, key)
                if rng.random() < 0.5:       # change only the kind
                    if old in (1.0, 0.0):
                        v = bool(old)
                    elif isinstance(old, bool):
                        v = float(old)
                    elif isinstance(old, str):
                        v = rng.choice(('BLANK', '', old.upper(), old + ' '))
                    else:
                        v = rng.choice(('BLANK', str(int(old)), ''))
                else:
                    v = rng.choice(HOSTILE)
            elif t < 0.85 and forms:
                key, v = rng.choice(forms), rng.choice(HOSTILE)
            else:
                b = rng.randrange(len(desc['books']))
                s = rng.randrange(len(desc['books'][b]['sheets']))
                key, v = (b, s, rng.randint(1, 3), rng.randint(1, 9)), rng.choice(HOSTILE)
            X.append([list(key), v])
        if j and rects and rng.random() < 0.4:
            # a whole rectangle (possibly over an array formula) overridden
            b, s_, c1, r1, c2, r2 = rng.choice(rects)
            cells_ = {(b, s_, c, r) for c in range(c1, c2 + 1) for r in range(r1, r2 + 1)}
            X = [x for x in X if tuple(x[0]) not in cells_]
            X.append([[b, s_, c1, r1, c2, r2], [
                [rng.choice([h for h in HOSTILE if h != 'BLANK'])
                 for _ in range(c1, c2 + 1)] for _ in range(r1, r2 + 1)]])
        O = None
        if j == 2 and forms and rng.random() < 0.7:
            O = [list(k) for k in rng.sample(forms, min(len(forms), rng.randint(1, 3)))]
        sols.append({'X': X, 'O': O})
    return {'kind': 'write', 'id': i, 'desc': desc, 'solutions': sols}


def _cellv(desc, key):
    b, s, c, r = key
    return desc['books'][b]['sheets'][s]['cells']['%s%d' % (col_name(c), r)]['v']


def _solve(m, desc, spec):
    inputs = {}
    for key, v in spec['X']:
        if len(key) == 6:
            inputs[gw.rect_key(desc, *key)] = [[_lib_value(x) for x in row] for row in v]
            continue
        nid = gw.key_of(desc, *key)
        inputs[nid] = _lib_value(v)
    kw = {}
    if spec['O']:
        outs = [wbrun.node_key(desc, tuple(k)) for k in spec['O']]
        outs = [o for o in outs if o in m.dsp.nodes]
        if outs:
            kw['outputs'] = outs
    return m.calculate(inputs=inputs or None, **kw)


def check_case(case, ctx):
    if case.get('kind') == 'folders':
        return check_folders(case, ctx)
    import shutil
    import openpyxl
    import formulas
    from formulas.excel import BOOK
    from .. import worker
    desc = case['desc']
    d = os.path.join(worker.scratch_dir(), 'c16')
    shutil.rmtree(d, ignore_errors=True)
    os.makedirs(d)
    try:
        m, paths = wbrun.load_xlsx(desc, os.path.join(d, 'src'))
    except Exception:
        ctx.count('load-raised')
        return
    sols = []
    for spec in case['solutions']:
        try:
            sols.append((spec, dict(_solve(m, desc, spec))))
        except Exception as ex:
            ctx.count('calculate-raised')
            ctx.see('calculate-raised', '%s: %s' % (type(ex).__name__, str(ex)[:80]))
    prev_books = None
    for n, (spec, sol) in enumerate(sols):
        w = {'case': dict(case, solutions=[spec]), 'overrides': spec['X'],
             'outputs': spec['O']}
        ctx.case((case['id'], n, spec))
        stage = 'fresh'
        try:
            # (a) fresh books
            books = m.write(solution=sol)
            judge_books(ctx, w, 'fresh', sol, {}, snapshot(books))
            # (b) the books of the previous solution used again
            if prev_books is not None:
                stage = 'reused'
                before = snapshot(prev_books)
                m.write(prev_books, solution=sol)
                judge_books(ctx, w, 'reused', sol, before, snapshot(prev_books))
            prev_books = books
            # (d) disk, read back with openpyxl, compare()
            stage = 'disk'
            out = os.path.join(d, 'out%d' % n)
            wb = m.write(solution=sol, dirpath=out)
            files = [os.path.join(out, f) for f in sorted(os.listdir(out))]
            back = {}
            for fp in files:
                back[os.path.basename(fp).upper()] = {BOOK: openpyxl.load_workbook(fp)}
            judge_books(ctx, w, 'disk', sol, {}, snapshot(back))
            stage = 'compare'
            diff = m.compare(*files, solution=sol)
            ctx.count('monitor.compare-calls')
            if diff:
                ctx.violation('compare-reports-difference', dict(
                    w, observed=repr(diff[:3])[:300], accepted=['[]']))
            elif len(files) > 1:
                # each written file on its own must agree with the model too
                for fp in files:
                    ctx.count('monitor.compare-single-file')
                    diff = m.compare(fp, solution=sol)
                    if diff:
                        ctx.violation('compare-reports-difference:single-file', dict(
                            w, file=os.path.basename(fp), observed=repr(diff[:3])[:300],
                            accepted=['[]']))
                        break
        except Exception as ex:
            ctx.violation('write-raised:%s:%s' % (stage, type(ex).__name__), dict(
                w, stage=stage, observed='%s: %s' % (type(ex).__name__, str(ex)[:200]),
                accepted=['written books']))
    # (c) the loaded books, last: it replaces their formulas by values
    for n, (spec, sol) in enumerate(sols[::-1][:2]):
        w = {'case': dict(case, solutions=[spec]), 'overrides': spec['X'],
             'outputs': spec['O']}
        try:
            before = snapshot(m.books)
            m.write(m.books, solution=sol)
            judge_books(ctx, w, 'loaded', sol, before, snapshot(m.books))
            if n == 0 and not spec['O']:
                # a full solution, first write: the loaded books (they keep sheets the
                # solution does not touch, e.g. empty ones) saved and compared
                out = os.path.join(d, 'out-loaded')
                m.write(m.books, solution=sol, dirpath=out)
                files = [os.path.join(r_, f) for r_, _, fs in os.walk(out) for f in fs]
                diff = m.compare(*files, solution=sol)
                ctx.count('monitor.compare-loaded-books')
                if diff:
                    ctx.violation('compare-reports-difference:loaded-books', dict(
                        w, observed=repr(diff[:3])[:300], accepted=['[]']))
        except Exception as ex:
            ctx.violation('write-raised:loaded:%s' % type(ex).__name__, dict(
                w, observed='%s: %s' % (type(ex).__name__, str(ex)[:200]),
                accepted=['written books']))
    shutil.rmtree(d, ignore_errors=True)


# -- workbooks in sub-folders (two of them with the same file name) ------------------------

def make_folders_case(seed, i):
    rng = random.Random('fvmon/C16/folders/%s/%s' % (seed, i))
    folders = rng.sample(['sub', 'other', 'y2023', 'deep/er', 'Data Files'], rng.randint(1, 3))
    same_name = rng.random() < 0.6
    books = []
    for j, f in enumerate(folders):
        books.append([f, 'b.xlsx' if same_name else 'b%d.xlsx' % j,
                      float(rng.randint(1, 90)), rng.choice(('txt', True, 2.5, '#N/A'))])
    return {'kind': 'folders', 'id': '%s/%s' % (seed, i), 'books': books,
            'override': rng.choice((None, float(rng.randint(100, 900))))}


def check_folders(case, ctx):
    import shutil
    import openpyxl
    import formulas
    from .. import worker
    d = os.path.join(worker.scratch_dir(), 'c16f')
    shutil.rmtree(d, ignore_errors=True)
    os.makedirs(d)
    main = openpyxl.Workbook()
    ms = main.active
    ms.title = 'S'
    want = {}
    for j, (folder, name, num, other) in enumerate(case['books']):
        os.makedirs(os.path.join(d, folder), exist_ok=True)
        wb = openpyxl.Workbook()
        ws = wb.active
        ws.title = 'T'
        ws['A1'], ws['A2'], ws['B1'] = num, other, '=A1*2'
        wb.save(os.path.join(d, folder, name))
        ms['A%d' % (j + 1)] = "='%s/[%s]T'!A1+1" % (folder, name)
        ms['B%d' % (j + 1)] = "='%s/[%s]T'!B1" % (folder, name)
        ms['C%d' % (j + 1)] = "=IFERROR('%s/[%s]T'!A2,\"e\")" % (folder, name)
        key = '%s/%s' % (folder.upper(), name.upper())
        want[key] = {'A1': num, 'A2': other, 'B1': num * 2}
        want.setdefault('MAIN.XLSX', {}).update({
            'A%d' % (j + 1): num + 1, 'B%d' % (j + 1): num * 2,
            'C%d' % (j + 1): 'e' if other == '#N/A' else other})
    main.save(os.path.join(d, 'main.xlsx'))
    w = {'case': case}
    ctx.case(('folders', case['id']))
    try:
        m = formulas.ExcelModel().loads(os.path.join(d, 'main.xlsx')).finish()
        inputs = {}
        if case['override'] is not None:
            folder, name, num, other = case['books'][0]
            inputs["'%s/[%s]T'!A1" % (folder, name)] = case['override']
            key = '%s/%s' % (folder.upper(), name.upper())
            v = case['override']
            want[key].update({'A1': v, 'B1': v * 2})
            want['MAIN.XLSX'].update({'A1': v + 1, 'B1': v * 2})
        sol = m.calculate(inputs=inputs) if inputs else m.calculate()
        out = os.path.join(d, 'out')
        m.write(solution=sol, dirpath=out)
    except Exception as ex:
        ctx.violation('folders:write-raised:%s' % type(ex).__name__, dict(
            w, observed='%s: %s' % (type(ex).__name__, str(ex)[:200]),
            accepted=['one file per workbook, in its folder below dirpath']))
        return
    files = {}
    for r_, _, fs in os.walk(out):
        for f in fs:
            files[os.path.relpath(os.path.join(r_, f), out).replace(os.sep, '/').upper()] = \
                os.path.join(r_, f)
    ctx.count('monitor.folder-books', len(want))
    for key, cells in sorted(want.items()):
        if key not in files:
            ctx.violation('folders:file-not-written', dict(
                w, book=key, observed=sorted(files), accepted=[key + ' below dirpath']))
            return
        ws = openpyxl.load_workbook(files[key]).worksheets[0]
        for addr, v in sorted(cells.items()):
            got = ws[addr].value
            ctx.count('monitor.folder-cells')
            if got != v or (isinstance(v, bool) != isinstance(got, bool)):
                ctx.violation('folders:written-differs', dict(
                    w, book=key, cell=addr, observed=repr(got), accepted=[repr(v)]))
                return
    if set(files) - set(want):
        ctx.violation('folders:extra-file', dict(
            w, observed=sorted(set(files) - set(want)), accepted=sorted(want)))
        return
    try:
        diff = m.compare(*files.values(), solution=sol)
    except Exception as ex:
        ctx.count('folders.compare-raised')
        ctx.see('folders-compare-raised', '%s: %s' % (type(ex).__name__, str(ex)[:80]))
        return
    ctx.count('monitor.folder-compare')
    if diff:
        ctx.violation('folders:compare-reports-difference', dict(
            w, observed=repr(diff[:3])[:300], accepted=['[]']))


def plan(tier, seed):
    n, per = (96, 6) if tier == 'quick' else (1600, 50)
    specs = [{'kind': 'write', 'lo': lo, 'hi': lo + per} for lo in range(0, n, per)]
    nf = 60 if tier == 'quick' else 600
    specs += [{'kind': 'folders', 'lo': lo, 'hi': lo + 30} for lo in range(0, nf, 30)]
    return specs


def run(spec, ctx):
    case = None
    if spec['kind'] == 'folders':
        for i in range(spec['lo'], spec['hi']):
            case = make_folders_case(spec['seed'], i)
            ctx.open_case({'kind': 'folders', 'id': case['id']})
            check_folders(case, ctx)
        ctx.sample({'folders': case['books']})
        return
    for i in range(spec['lo'], spec['hi']):
        case = make_case(spec['seed'], i)
        ctx.open_case({'kind': 'write', 'id': i})
        check_case(case, ctx)
    if case:
        ctx.sample({'solutions': case['solutions']})


def finalize(agg, tier):
    c, inc = agg['counters'], []
    for k, floor in (('monitor.written-cells', 20000), ('written.fresh', 5000),
                     ('written.reused', 3000), ('written.loaded', 3000),
                     ('written.disk', 5000), ('monitor.untouched-cells', 500),
                     ('monitor.compare-calls', 200), ('monitor.folder-cells', 300),
                     ('monitor.compare-single-file', 60),
                     ('monitor.compare-loaded-books', 15)):
        if c.get(k, 0) < floor:
            inc.append('monitor %s saw %d events (< %d)' % (k, c.get(k, 0), floor))
    return {'inconclusive': inc}
