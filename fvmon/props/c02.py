"""C02 - operators implement Excel's scalar semantics for every operand kind.

Reference-model monitor: the complete cross product of an operand pool is
driven through both observation paths of every operator (literals in
Parser().ast(...).compile()(), cell values through Cell + Dispatcher) and each
result is judged by ref.scalar's accept-sets and by well-formedness.  The six
comparisons are additionally checked for algebraic consistency.
"""
import math
import itertools
import schedula as sh

from .. import xl
from ..ref import scalar as rs

ID = 'C02'
LEVEL = 'exploration'
RULE = ('a case is (operator, left operand, right operand, path); operands '
        'come from a pool covering 0, +/-1, fractions, 1e+/-200, numeric / '
        'padded / non-numeric / python-float-looking / empty text, TRUE/FALSE, '
        'blank reference and the 7 errors; the whole cross product is run for '
        'the 12 binary operators and the pool for the 3 unary ones, on the '
        'literal path and on the cell path; plus random finite floats on the '
        'cell path; distinct = distinct (op, operands, path); non-trivial = '
        'result compared with the reference accept-set')
ASSUMPTIONS = [
    'numeric text = plain decimal or exponent text, optionally blank-padded; '
    'locale/date/currency/percent text is not in the pool',
    '& is judged only where the General rendering of a number is certain '
    '(|integers| < 1e15, short decimals, 1E+/-200)',
    'ordering (< > <= >=) of two different texts is judged only for ASCII '
    'letters/digits/blanks; equality of texts is always judged',
    'for (non-numeric text op error) both #VALUE! and the error are accepted; '
    'negative base with exponent 1/odd accepts #NUM! and the real root',
]

BIN = ('+', '-', '*', '/', '^', '&', '=', '<>', '<', '>', '<=', '>=')
ERRS = ('#NULL!', '#DIV/0!', '#VALUE!', '#REF!', '#NAME?', '#NUM!', '#N/A')

# (id, python value, literal spelling or None, subclass)
POOL = [
    ('0', 0.0, '0', 'num:zero'), ('1', 1.0, '1', 'num:pos'),
    ('-1', -1.0, '(-1)', 'num:neg'), ('2', 2.0, '2', 'num:pos'),
    ('3', 3.0, '3', 'num:pos'), ('0.5', 0.5, '0.5', 'num:frac'),
    ('-2.5', -2.5, '(-2.5)', 'num:negfrac'), ('0.25', 0.25, '0.25', 'num:frac'),
    ('-8', -8.0, '(-8)', 'num:neg'), ('1e200', 1e200, '1E+200', 'num:big'),
    ('-1e200', -1e200, '(-1E+200)', 'num:negbig'),
    ('1e-200', 1e-200, '1E-200', 'num:tiny'), ('1024', 1024.0, '1024', 'num:pos'),
    ('t1', '1', '"1"', 'text:num'), ('t2.5', '2.5', '"2.5"', 'text:num'),
    ('t-3', '-3', '"-3"', 'text:num'), ('t1E+2', '1E+2', '"1E+2"', 'text:num'),
    ('t1e3', '1e3', '"1e3"', 'text:num'), ('-0', -0.0, '(-0.0)', 'num:zero'),
    ('tpad', ' 4 ', '" 4 "', 'text:pad'), ('tabc', 'abc', '"abc"', 'text:alpha'),
    ('tA', 'A', '"A"', 'text:alpha'), ('ta', 'a', '"a"', 'text:alpha'),
    ('tB', 'B', '"B"', 'text:alpha'), ('t1_0', '1_0', '"1_0"', 'text:pyfloat'),
    ('tinf', 'inf', '"inf"', 'text:pyfloat'), ('tnan', 'nan', '"nan"', 'text:pyfloat'),
    ('tempty', '', '""', 'text:empty'),
    ('TRUE', True, 'TRUE', 'bool'), ('FALSE', False, 'FALSE', 'bool'),
    ('blank', sh.EMPTY, None, 'blank'),
] + [(e, None, e, 'err') for e in ERRS]


def _val(entry):
    if entry[3] == 'err':
        return xl.err(entry[0])
    return entry[1]


def _vclass(v):
    """Value class used in signatures (mechanism, not the value)."""
    k = xl.kind(v)
    if k == 'num':
        f = float(v)
        if f == 0:
            return 'num0'
        if abs(f) >= 1e15:
            return 'numbig'
        if abs(f) < 1e-9:
            return 'numtiny'
        if f != int(f):
            return 'numfrac-' if f < 0 else 'numfrac'
        return 'numint-' if f < 0 else 'numint'
    if k == 'text':
        if v == '':
            return 'text-empty'
        if rs._NUMTEXT.match(v):
            return 'text-num'
        try:
            float(v)
            return 'text-pyfloat'
        except ValueError:
            return 'text'
    return k


def _oclass(c):
    if c[0] == 'err':
        return c[1]
    if c[0] == 'foreign':
        return 'foreign(%s)' % c[1].split(':')[0]
    return c[0]


class Paths:
    def __init__(self):
        import formulas
        from formulas.cell import Cell
        self.P = formulas.Parser()
        self.Cell = Cell
        self._cells = {}

    def literal(self, op, entries):
        """Literals in the formula text; blanks via a reference argument."""
        from formulas.ranges import Ranges
        texts, args = [], []
        for i, e in enumerate(entries):
            if e[2] is None:
                ref = 'AB'[i] + '1'
                texts.append(ref)
                args.append(Ranges().push(ref, [[sh.EMPTY]]))
            else:
                texts.append(e[2])
        if op in SIGN_RUNS:
            f = '=%s%s' % (op[1:], texts[0])
        elif op == 'u-':
            f = '=-%s' % texts[0]
        elif op == 'u+':
            f = '=+%s' % texts[0]
        elif op == '%':
            f = '=%s%%' % texts[0]
        else:
            f = _lit_text(op, entries)
        fn = self.P.ast(f)[1].compile()
        return f, fn(*args)

    def cell(self, op, values):
        key = op
        if key not in self._cells:
            if op in SIGN_RUNS:
                f = '=%sA1' % op[1:]
            elif op == 'u-':
                f = '=-A1'
            elif op == 'u+':
                f = '=+A1'
            elif op == '%':
                f = '=A1%'
            else:
                f = '=A1%sB1' % op
            dsp = sh.Dispatcher()
            c = self.Cell('Z99', f).compile()
            c.add(dsp)
            self._cells[key] = (f, dsp, c.output, list(c.inputs))
        f, dsp, out, inputs = self._cells[key]
        inp = {}
        for ref, v in zip(('A1', 'B1'), values):
            inp[ref] = [[sh.EMPTY]] if v is sh.EMPTY else v
        sol = dsp(inp)
        return f, sol[out]

    def numpy(self, op, values):
        """Operands as numpy scalars: what an operator receives when another
        function computed its operand (SUM(..)<COUNT(..) is a numpy.bool_)."""
        import numpy as np
        conv = []
        for v in values:
            if isinstance(v, bool):
                v = np.bool_(v)
            elif isinstance(v, float):
                v = np.float64(v)
            elif isinstance(v, str) and xl.kind(v) == "text":
                v = np.str_(v)
            conv.append(v)
        return self.cell(op, conv)


def judge(ctx, op, values, path, formula, run):
    case = {'kind': 'op', 'op': op, 'path': path,
            'operands': [_pool_id(v) for v in values]}
    try:
        res = run()
    except Exception as ex:
        ctx.violation('%s:%s:raised:%s:%s' % (
            op, ','.join(map(_vclass, values)), type(ex).__name__, path), {
            'case': case, 'formula': formula,
            'observed': '%s: %s' % (type(ex).__name__, str(ex)[:100]),
            'accepted': ['an Excel value']})
        return None
    got = xl.canon(xl.scalar(res[1] if isinstance(res, tuple) else res))
    acc = rs.accept(op, *values)
    ctx.count('judge.%s' % path)
    ctx.see('cube', '%s|%s' % (op, '|'.join(xl.kind(v) for v in values)))
    if got[0] == 'foreign' or got[0] in ('arr', 'arr1'):
        ctx.violation('%s:%s:foreign:%s' % (
            op, ','.join(map(_vclass, values)), _oclass(got)), {
            'case': case, 'formula': formula, 'observed': xl.show(got),
            'accepted': sorted(map(xl.show, acc or []))})
        return got
    if acc is None:
        ctx.count('judge.not-certain')
        return got
    if op in ('<', '>', '<=', '>=') and all(xl.kind(v) == 'text' for v in values) \
            and not rs.text_order_certain(*values):
        ctx.count('judge.not-certain')
        return got
    exact = op in ('+', '-', '*', '/', 'u-', 'u+', '%') + SIGN_RUNS
    if not xl.in_accept(got, acc, exact=exact):
        ctx.violation('%s:%s:%s->%s' % (
            op, ','.join(map(_vclass, values)), _oclass(got),
            '/'.join(sorted(_oclass(a) for a in acc))), {
            'case': case, 'formula': formula, 'observed': xl.show(got),
            'accepted': sorted(map(xl.show, acc)),
            'operand_values': [xl.show(xl.canon(v)) for v in values]})
    return got


_IDS = {}


def _pool_id(v):
    for e in POOL:
        ev = _val(e)
        if ev is v or (type(ev) is type(v) and ev == v and not isinstance(v, float)):
            return e[0]
        if isinstance(v, float) and isinstance(ev, float) and ev == v and \
                math.copysign(1, ev) == math.copysign(1, v):
            return e[0]
    return repr(v)


def _entry(pid):
    for e in POOL:
        if e[0] == pid:
            return e
    return ('lit', float(pid), None, 'num:rand')


def check_case(case, ctx, paths=None):
    paths = paths or Paths()
    op = case['op']
    entries = [_entry(p) for p in case['operands']]
    values = [_val(e) for e in entries]
    path = case.get('path', 'cell')
    key = (op, tuple(case['operands']), path)
    ctx.case(key)
    if path == 'literal':
        holder = {}

        def run():
            f, r = paths.literal(op, entries)
            holder['f'] = f
            return r
        f = None
        got = judge(ctx, op, values, 'literal', _lit_text(op, entries), run)
    elif path == 'numpy':
        def run():
            return paths.numpy(op, values)[1]
        got = judge(ctx, op, values, 'numpy', _cell_text(op), run)
    else:
        def run():
            return paths.cell(op, values)[1]
        got = judge(ctx, op, values, 'cell', _cell_text(op), run)
    return got


SIGN_RUNS = ('u--', 'u- -', 'u+-', 'u-+', 'u---', 'u++')   # runs of signs: `=--x`


def _lit_text(op, entries):
    t = [e[2] or 'AB'[i] + '1' for i, e in enumerate(entries)]
    if op in SIGN_RUNS:
        return '=%s%s' % (op[1:], t[0])
    if op == 'u-':
        return '=-%s' % t[0]
    if op == 'u+':
        return '=+%s' % t[0]
    if op == '%':
        return '=%s%%' % t[0]
    if t[1].startswith('(-') and (len(t[0]) + len(op)) % 2:
        t[1] = t[1][1:-1]        # a signed right operand needs no parentheses
    return '=%s%s%s' % (t[0], op, t[1])


def _cell_text(op):
    if op in SIGN_RUNS:
        return '=%sA1' % op[1:]
    return {'u-': '=-A1', 'u+': '=+A1', '%': '=A1%'}.get(op, '=A1%sB1' % op)


def consistency(ctx, a, b, res, path):
    """Algebraic consistency of the six comparisons on one operand pair."""
    vals = {}
    for op in rs.CMP:
        g = res.get(op)
        if g is None or g[0] != 'bool':
            return
        vals[op] = g[1]
    ctx.count('consistency')
    bad = []
    if vals['<>'] != (not vals['=']):
        bad.append('<> is not the negation of =')
    if vals['<='] != (vals['<'] or vals['=']):
        bad.append('<= differs from (< or =)')
    if vals['>='] != (vals['>'] or vals['=']):
        bad.append('>= differs from (> or =)')
    if [vals['<'], vals['='], vals['>']].count(True) != 1:
        bad.append('not exactly one of < = >')
    for msg in bad:
        ctx.violation('cmp-consistency:%s:%s,%s' % (
            msg.split()[0], _vclass(a), _vclass(b)), {
            'case': {'kind': 'pair', 'operands': [_pool_id(a), _pool_id(b)],
                     'path': path},
            'observed': {k: v for k, v in vals.items()}, 'accepted': [msg]})


def plan(tier, seed):
    n = len(POOL)
    specs = []
    shards = 14
    for path in ('literal', 'cell', 'numpy'):
        for i in range(shards):
            specs.append({'kind': 'cross', 'path': path, 'part': i,
                          'parts': shards})
    specs.append({'kind': 'unary'})
    nf = 2 if tier == 'quick' else 16
    for i in range(nf):
        specs.append({'kind': 'floats', 'count': 4000 if tier == 'quick' else 13000})
    return specs


def run(spec, ctx):
    paths = Paths()
    k = spec['kind']
    if k == 'cross':
        pairs = list(itertools.product(POOL, repeat=2))
        path = spec['path']
        for idx in range(spec['part'], len(pairs), spec['parts']):
            ea, eb = pairs[idx]
            res = {}
            for op in BIN:
                case = {'kind': 'op', 'op': op, 'path': path,
                        'operands': [ea[0], eb[0]]}
                ctx.open_case(case)
                res[op] = check_case(case, ctx, paths)
            consistency(ctx, _val(ea), _val(eb), res, path)
        # antisymmetry of < and > over swapped operands
        ctx.sample({'formula': _lit_text('+', [ea, eb]), 'path': path})
    elif k == 'unary':
        for e in POOL:
            for op in ('u-', 'u+', '%') + SIGN_RUNS:
                for path in ('literal', 'cell', 'numpy'):
                    case = {'kind': 'op', 'op': op, 'path': path,
                            'operands': [e[0]]}
                    check_case(case, ctx, paths)
        # antisymmetry: a<b == b>a for the whole pool (cell path)
        for ea, eb in itertools.product(POOL, repeat=2):
            a, b = _val(ea), _val(eb)
            r1 = xl.canon(xl.scalar(paths.cell('<', [a, b])[1]))
            r2 = xl.canon(xl.scalar(paths.cell('>', [b, a])[1]))
            ctx.count('antisymmetry')
            if r1[0] == 'bool' and r2[0] == 'bool' and r1 != r2:
                ctx.violation('cmp-antisymmetry:%s,%s' % (_vclass(a), _vclass(b)), {
                    'case': {'kind': 'pair', 'operands': [ea[0], eb[0]]},
                    'observed': [xl.show(r1), xl.show(r2)],
                    'accepted': ['a<b equals b>a']})
    elif k == 'floats':
        rng = ctx.rng
        for _ in range(spec['count']):
            def rf():
                m = rng.choice((1, 1, 1e-3, 1e3, 1e10, 1e-10, 1e100, 1e-100, 1e300))
                x = rng.uniform(-1, 1) * m
                if rng.random() < 0.3:
                    x = float(round(x))
                if rng.random() < 0.15:
                    x = float(rng.randint(-20, 20))
                return x
            a, b = rf(), rf()
            op = rng.choice(('+', '-', '*', '/', '^', '=', '<', '>', '<=', '>=', '<>'))
            case = {'kind': 'op', 'op': op, 'path': 'cell',
                    'operands': [repr(a), repr(b)]}
            ctx.open_case(case)
            check_case(case, ctx, paths)
        ctx.sample(case)


def finalize(agg, tier):
    c, inc = agg['counters'], []
    n = len(POOL)
    want = n * n * len(BIN)
    for p in ('literal', 'cell', 'numpy'):
        if c.get('judge.' + p, 0) < want:
            inc.append('path %s judged %d < %d cross-product cases' % (
                p, c.get('judge.' + p, 0), want))
    kinds = ('num', 'text', 'bool', 'blank', 'err')
    cube = set(agg['sets'].get('cube', ()))
    missing = [
        '%s|%s|%s' % (op, a, b) for op in BIN for a in kinds for b in kinds
        if '%s|%s|%s' % (op, a, b) not in cube]
    if missing:
        inc.append('kind cube cells never observed: %s' % missing[:5])
    return {'inconclusive': inc, 'coverage': {
        'exhaustive': True,
        'exhaustive_note': 'operand pool cross product x 12 binary operators '
                           'x 3 paths (literals, python values, numpy scalars); pool x 3 '
                           'unary operators x 3 paths',
        'pool_size': n, 'kind_cube_cells': len(cube)}}
