"""C20 - calendar and number-system conversions are exact inverses.

Reference-model monitor over (nearly) exhaustive domains, driven through the
real function-table entries (vectorised calls) and, for a sample, through the
Cell path.
"""
import datetime
import numpy as np

from .. import xl

ID = 'C20'
LEVEL = 'exploration'
RULE = ('cases = date serials (all 2958466 in thorough; stride+all month '
        'boundaries in quick) x {YEAR,MONTH,DAY,DATE,10 WEEKDAY modes}, all '
        '86400 seconds x {TIME,HOUR,MINUTE,SECOND}, all 1024 binary values, '
        'sampled+boundary octal/hex values, all 4000x5 ROMAN arguments plus '
        'out-of-domain neighbours; every case is a distinct argument tuple by '
        'construction; non-trivial = reaches the reference comparison')
ASSUMPTIONS = [
    'reference calendar: serial 0 = 1900-01-00, 60 = 1900-02-29 (fictitious), '
    'serial 1 is a Sunday in Excel numbering, python datetime for the rest',
    'ROMAN outside 0..3999 / form outside 0..4 must be an error value of any '
    'kind (Excel gives #VALUE!); DEC2x/x2DEC outside range must be #NUM!',
    'only ROMAN form 0 is compared with the classic rendering; forms 1-4 are '
    'checked by round trip only',
]
MAXS = 2958465
MODES = (1, 2, 3, 11, 12, 13, 14, 15, 16, 17)
# value of WEEKDAY(serial 1 = "Sunday 1 Jan 1900") in each mode
ANCHOR = {1: 1, 2: 7, 3: 6, 11: 7, 12: 6, 13: 5, 14: 4, 15: 3, 16: 2, 17: 1}
_D0 = datetime.date(1899, 12, 31)
_D1 = datetime.date(1899, 12, 30)


def ref_ymd(s):
    if s == 0:
        return 1900, 1, 0
    if s == 60:
        return 1900, 2, 29
    d = (_D0 if s < 60 else _D1) + datetime.timedelta(days=s)
    return d.year, d.month, d.day


def ref_weekday(s, mode):
    # serial 1 -> ANCHOR; successor rule, cyclic over 7 values
    lo = 0 if mode == 3 else 1
    return (ANCHOR[mode] - lo + (s - 1)) % 7 + lo


def _F():
    import formulas
    return formulas.get_functions()


def _col(vals):
    a = np.empty((len(vals), 1), object)
    a[:, 0] = vals
    return a


def _region(s):
    if s == 0:
        return 'day0'
    if s < 60:
        return 'd1-59'
    if s == 60:
        return 'd60'
    if s == 61:
        return 'd61'
    if s >= MAXS:
        return 'last'
    return 'd62+'


def _cmp(ctx, name, obs, exp, case_of, sigclass):
    """obs/exp: lists of equal length; report mismatches."""
    ctx.count('cmp.' + name, len(exp))
    for i, (o, e) in enumerate(zip(obs, exp)):
        o = xl.canon(o)
        if not xl.same(o, e, exact=True):
            ctx.violation('%s:%s' % (name, sigclass(i)), {
                'case': case_of(i), 'func': name, 'observed': xl.show(o),
                'accepted': [xl.show(e)]})


def check_serials(serials, ctx):
    F = _F()
    serials = [int(s) for s in serials]
    col = _col(serials)
    refs = [ref_ymd(s) for s in serials]
    case_of = lambda i: {'kind': 'serials', 'list': [serials[i]]}
    reg = lambda i: _region(serials[i])
    for j, name in enumerate(('YEAR', 'MONTH', 'DAY')):
        obs = F[name](col).ravel().tolist()
        _cmp(ctx, name, obs, [xl.c_num(r[j]) for r in refs], case_of, reg)
    y, m, d = (_col([r[j] for r in refs]) for j in range(3))
    obs = F['DATE'](y, m, d).ravel().tolist()
    _cmp(ctx, 'DATE', obs, [xl.c_num(s) for s in serials], case_of, reg)
    modes = np.array([MODES], object)
    obs = F['WEEKDAY'](col, modes)
    for k, mode in enumerate(MODES):
        _cmp(ctx, 'WEEKDAY', obs[:, k].tolist(),
             [xl.c_num(ref_weekday(s, mode)) for s in serials],
             lambda i: {'kind': 'serials', 'list': [serials[i]], 'mode': mode},
             lambda i: 'mode%d:%s' % (mode, _region(serials[i])))
    ctx.case_bulk(len(serials) * 14)


def check_outside(ctx):
    F = _F()
    for s in (-1, -2, MAXS + 1, MAXS + 2, 10 ** 7):
        for name in ('YEAR', 'MONTH', 'DAY', 'WEEKDAY'):
            o = xl.canon(xl.scalar(F[name](s)))
            ctx.case(('outside', name, s))
            ctx.count('cmp.outside')
            if o != xl.c_err('#NUM!'):
                ctx.violation('%s:outside' % name, {
                    'case': {'kind': 'outside'}, 'func': name, 'arg': s,
                    'observed': xl.show(o), 'accepted': ['#NUM!']})
    for mode in (0, 4, 10, 18, -1):
        o = xl.canon(xl.scalar(F['WEEKDAY'](100, mode)))
        ctx.case(('wdmode', mode))
        if o != xl.c_err('#NUM!'):
            ctx.violation('WEEKDAY:badmode', {
                'case': {'kind': 'outside'}, 'mode': mode,
                'observed': xl.show(o), 'accepted': ['#NUM!']})


def check_seconds(lo, hi, ctx):
    F = _F()
    secs = list(range(lo, hi))
    h = _col([t // 3600 for t in secs])
    m = _col([t // 60 % 60 for t in secs])
    s = _col([t % 60 for t in secs])
    tv = F['TIME'](h, m, s)
    case_of = lambda i: {'kind': 'seconds', 'lo': secs[i], 'hi': secs[i] + 1}
    tl = tv.ravel().tolist()
    ctx.count('cmp.TIME', len(secs))
    for i, v in enumerate(tl):
        c = xl.canon(v)
        if c[0] != 'num' or not (0 <= c[1] < 1) or \
                abs(c[1] * 86400 - secs[i]) > 1e-6:
            ctx.violation('TIME:value', {
                'case': case_of(i), 'observed': xl.show(c),
                'accepted': ['%r/86400' % secs[i]]})
    for name, ref in (('HOUR', h), ('MINUTE', m), ('SECOND', s)):
        obs = F[name](tv).ravel().tolist()
        _cmp(ctx, name, obs, [xl.c_num(x) for x in ref.ravel().tolist()],
             case_of, lambda i: 'inverse-of-TIME')
    # a date part must not disturb the time part
    for off in (1, 61, 45000):
        tv2 = _col([off + v for v in tl[::97] if isinstance(v, float)])
        for name, ref in (('HOUR', h), ('MINUTE', m), ('SECOND', s)):
            obs = F[name](tv2).ravel().tolist()
            _cmp(ctx, name, obs,
                 [xl.c_num(x) for x in ref.ravel().tolist()[::97]],
                 lambda i: {'kind': 'seconds', 'lo': secs[i * 97],
                            'hi': secs[i * 97] + 1, 'date': off},
                 lambda i: 'with-date-part')
    ctx.case_bulk(len(secs) * 4)


_BASES = {'BIN': (2, 9), 'OCT': (8, 29), 'HEX': (16, 39)}


def _ref_dec2x(n, base, bits):
    lim = 1 << bits
    if not (-lim <= n < lim):
        return None
    if n < 0:
        n += lim << 1
    digits = '0123456789ABCDEF'
    out = ''
    while True:
        out = digits[n % base] + out
        n //= base
        if not n:
            return out


def check_base(name, values, ctx):
    """values: decimal integers, inside and outside the domain."""
    F = _F()
    base, bits = _BASES[name]
    lim = 1 << bits
    d2x, x2d = F['DEC2' + name], F[name + '2DEC']
    for n in values:
        n = int(n)
        case = {'kind': 'base', 'name': name, 'values': [n]}
        ctx.case(('base', name, n))
        ref = _ref_dec2x(n, base, bits)
        o = xl.canon(xl.scalar(d2x(n)))
        ctx.count('cmp.DEC2' + name)
        if ref is None:
            if o != xl.c_err('#NUM!'):
                ctx.violation('DEC2%s:outside' % name, {
                    'case': case, 'observed': xl.show(o),
                    'accepted': ['#NUM!']})
            continue
        if o != xl.c_text(ref):
            ctx.violation('DEC2%s:value:%s' % (name, 'neg' if n < 0 else 'pos'), {
                'case': case, 'observed': xl.show(o), 'accepted': [ref]})
            continue
        back = xl.canon(xl.scalar(x2d(o[1])))
        ctx.count('cmp.%s2DEC' % name)
        if back != xl.c_num(n):
            ctx.violation('%s2DEC:inverse:%s' % (name, 'neg' if n < 0 else 'pos'), {
                'case': case, 'text': o[1], 'observed': xl.show(back),
                'accepted': [repr(float(n))]})
        # the other direction: a spelling with a redundant leading zero
        if n >= 0 and len(ref) < 10:
            padded = '0' + ref
            b2 = xl.canon(xl.scalar(x2d(padded)))
            if b2 != xl.c_num(n):
                ctx.violation('%s2DEC:padded' % name, {
                    'case': case, 'text': padded, 'observed': xl.show(b2),
                    'accepted': [repr(float(n))]})
        # the numeral given as a number (what VALUE("101") or a calculation
        # hands on): python int, float and numpy float
        if n >= 0 and ref.isdigit() and len(ref) <= 10:
            import numpy as np
            for form, v in (('int', int(ref)), ('float', float(ref)),
                            ('numpy', np.float64(ref)), ('numpy-int', np.int64(ref))):
                b3 = xl.canon(xl.scalar(x2d(v)))
                ctx.count('cmp.%s2DEC.numeric-numeral' % name)
                if b3 != xl.c_num(n):
                    ctx.violation('%s2DEC:numeral-as-%s' % (name, form), {
                        'case': case, 'numeral': repr(v), 'observed': xl.show(b3),
                        'accepted': [repr(float(n))]})
        # places argument
        if n >= 0:
            w = xl.canon(xl.scalar(d2x(n, 10)))
            if w != xl.c_text(ref.zfill(10)):
                ctx.violation('DEC2%s:places' % name, {
                    'case': case, 'observed': xl.show(w),
                    'accepted': [ref.zfill(10)]})
        else:
            # the ten digits of a negative number ignore the places
            for p_ in (1 + abs(n) % 10, 10):
                w = xl.canon(xl.scalar(d2x(n, p_)))
                ctx.count('cmp.DEC2%s.negative-places' % name)
                if w != xl.c_text(ref):
                    ctx.violation('DEC2%s:negative-places' % name, {
                        'case': case, 'places': p_, 'observed': xl.show(w),
                        'accepted': [ref]})
        # spellings outside the domain: a sign, a blank, python's base prefix or
        # digit separator - never a numeral of that base
        pre = {'BIN': '0b', 'OCT': '0o', 'HEX': '0x'}[name]
        for why, bad in (('sign', '-' + ref[:9]), ('sign', '+' + ref[:9]),
                         ('blank', ' ' + ref[:9]), ('blank', ref[:9] + ' '),
                         ('prefix', pre + ref[:8]), ('prefix', pre.upper() + ref[:8]),
                         ('separator', ref[:1] + '_' + ref[1:9]),
                         ('digit', ref[:9] + 'G'), ('digit', ref[:9] + str(base)[-1:])):
            if why == 'digit' and name == 'HEX' and bad[-1] != 'G':
                continue
            if why == 'separator' and len(ref) < 2:
                continue
            b4 = xl.canon(xl.scalar(x2d(bad)))
            ctx.count('cmp.%s2DEC.outside-spelling' % name)
            if b4 != xl.c_err('#NUM!'):
                ctx.violation('%s2DEC:outside-spelling:%s' % (name, why), {
                    'case': case, 'text': bad, 'observed': xl.show(b4),
                    'accepted': ['#NUM!']})
        # cross conversions agree with going through decimal
        for other, (ob, obits) in _BASES.items():
            if other == name:
                continue
            exp = _ref_dec2x(n, ob, obits)
            got = xl.canon(xl.scalar(F['%s2%s' % (name, other)](o[1])))
            ctx.count('cmp.%s2%s' % (name, other))
            want = xl.c_err('#NUM!') if exp is None else xl.c_text(exp)
            if got != want:
                ctx.violation('%s2%s:%s' % (
                    name, other, 'outside' if exp is None else 'value'), {
                    'case': case, 'text': o[1], 'observed': xl.show(got),
                    'accepted': [xl.show(want)]})
    # 11-digit strings are outside every domain
    for txt in ('1' * 11, '10000000000'):
        got = xl.canon(xl.scalar(x2d(txt)))
        ctx.case(('base11', name, txt))
        if got != xl.c_err('#NUM!'):
            ctx.violation('%s2DEC:11digits' % name, {
                'case': {'kind': 'base', 'name': name, 'values': []},
                'text': txt, 'observed': xl.show(got), 'accepted': ['#NUM!']})


def _classic_roman(n):
    out = ''
    for v, s in ((1000, 'M'), (900, 'CM'), (500, 'D'), (400, 'CD'), (100, 'C'),
                 (90, 'XC'), (50, 'L'), (40, 'XL'), (10, 'X'), (9, 'IX'),
                 (5, 'V'), (4, 'IV'), (1, 'I')):
        while n >= v:
            out += s
            n -= v
    return out


def check_roman(lo, hi, ctx):
    F = _F()
    nums = list(range(lo, hi))
    col = _col(nums)
    forms = np.array([[0, 1, 2, 3, 4]], object)
    rom = F['ROMAN'](col, forms)
    ar = F['ARABIC'](rom)
    for i, n in enumerate(nums):
        for f in range(5):
            case = {'kind': 'roman', 'lo': n, 'hi': n + 1}
            r = xl.canon(rom[i, f])
            ctx.count('cmp.ROMAN')
            if r[0] != 'text' or (f == 0 and r[1] != _classic_roman(n)):
                ctx.violation('ROMAN:form%d' % f, {
                    'case': case, 'form': f, 'observed': xl.show(r),
                    'accepted': [_classic_roman(n)] if f == 0 else ['text']})
                continue
            a = xl.canon(ar[i, f])
            ctx.count('cmp.ARABIC')
            if a != xl.c_num(n):
                ctx.violation('ARABIC:inverse:form%d' % f, {
                    'case': case, 'form': f, 'roman': r[1],
                    'observed': xl.show(a), 'accepted': [repr(float(n))]})
    # the logical spellings of the form: TRUE = classic (0), FALSE = simplified (4)
    lg = F['ROMAN'](col, np.array([[True, False]], object))
    for i, n in enumerate(nums):
        for j, f in ((0, 0), (1, 4)):
            ctx.count('cmp.ROMAN.logical-form')
            if xl.canon(lg[i, j]) != xl.canon(rom[i, f]):
                ctx.violation('ROMAN:logical-form:%s' % ('TRUE', 'FALSE')[j], {
                    'case': {'kind': 'roman', 'lo': n, 'hi': n + 1},
                    'form': bool(1 - j), 'observed': xl.show(xl.canon(lg[i, j])),
                    'accepted': [xl.show(xl.canon(rom[i, f]))]})
    ctx.case_bulk(len(nums) * 5)


def check_roman_outside(ctx):
    F = _F()
    for n, f in ((4000, 0), (-1, 0), (5000, 2), (10, 5), (10, -1), (3999, 7)):
        o = xl.canon(xl.scalar(F['ROMAN'](n, f)))
        ctx.case(('roman-out', n, f))
        ctx.count('cmp.ROMAN.outside')
        if o[0] != 'err':
            ctx.violation('ROMAN:outside', {
                'case': {'kind': 'roman_outside'}, 'args': [n, f],
                'observed': xl.show(o), 'accepted': ['an error value']})
    # lower case and classic strings read back
    for txt, n in (('mcmxcix', 1999), ('MMXXIV', 2024), ('', 0)):
        o = xl.canon(xl.scalar(F['ARABIC'](txt)))
        ctx.case(('arabic', txt))
        if o != xl.c_num(n):
            ctx.violation('ARABIC:literal', {
                'case': {'kind': 'roman_outside'}, 'text': txt,
                'observed': xl.show(o), 'accepted': [repr(float(n))]})


def check_cellpath(serials, ctx):
    """The same functions through Cell formulas (second observe_at)."""
    import schedula as sh
    from formulas.cell import Cell
    dsp = sh.Dispatcher()
    cells = {}
    for ref, f in (('B1', '=YEAR(A1)'), ('B2', '=MONTH(A1)'), ('B3', '=DAY(A1)'),
                   ('B4', '=DATE(YEAR(A1),MONTH(A1),DAY(A1))'),
                   ('B5', '=WEEKDAY(A1+1,2)-WEEKDAY(A1,2)'),
                   ('B6', '=BIN2DEC(DEC2BIN(MOD(A1,1023)-512))'),
                   ('B7', '=ARABIC(ROMAN(MOD(A1,4000),MOD(A1,5)))'),
                   ('B8', '=HOUR(TIME(0,0,MOD(A1,86400)))*3600+'
                          'MINUTE(TIME(0,0,MOD(A1,86400)))*60+'
                          'SECOND(TIME(0,0,MOD(A1,86400)))')):
        c = Cell(ref, f).compile()
        c.add(dsp)
        cells[ref] = c.output
    for s in serials:
        s = int(s)
        sol = dsp({'A1': s})
        y, m, d = ref_ymd(s)
        exp = {'B1': y, 'B2': m, 'B3': d, 'B4': s,
               'B6': s % 1023 - 512, 'B7': s % 4000, 'B8': s % 86400}
        wd = xl.canon(xl.scalar(sol[cells['B5']]))
        ctx.case(('cell', s))
        ctx.count('cmp.cellpath', 8)
        if s < MAXS and wd not in (xl.c_num(1), xl.c_num(-6)):
            ctx.violation('cell:WEEKDAY-step', {
                'case': {'kind': 'cellpath', 'list': [s]},
                'observed': xl.show(wd), 'accepted': ['1.0', '-6.0']})
        for k, e in exp.items():
            if k == 'B8' and s % 86400 > 32767:
                continue  # TIME arguments above 32767 are #NUM! in Excel
            o = xl.canon(xl.scalar(sol[cells[k]]))
            if o != xl.c_num(e):
                ctx.violation('cell:%s' % k, {
                    'case': {'kind': 'cellpath', 'list': [s]}, 'cell': k,
                    'observed': xl.show(o), 'accepted': [repr(float(e))]})


# -- plan / run --------------------------------------------------------------

def _month_boundaries():
    out = set()
    d = datetime.date(1900, 3, 1)
    for y in range(1900, 10000):
        for m in range(1, 13):
            if (y, m) < (1900, 3):
                continue
            s = (datetime.date(y, m, 1) - _D1).days
            out.update((s - 1, s, s + 1))
    out.update(range(0, 130))
    out.update(range(MAXS - 70, MAXS + 1))
    return sorted(s for s in out if 0 <= s <= MAXS)


def plan(tier, seed):
    specs = []
    if tier == 'thorough':
        n = 48
        step = (MAXS + 1 + n - 1) // n
        for i in range(n):
            specs.append({'kind': 'serials', 'lo': i * step,
                          'hi': min(MAXS + 1, (i + 1) * step), 'step': 1})
        sec_shards, rom_shards = 8, 4
        nsample = 100000
    else:
        off = seed % 29
        n = 12
        step = (MAXS + 1 + n - 1) // n
        for i in range(n):
            specs.append({'kind': 'serials', 'lo': i * step + off,
                          'hi': min(MAXS + 1, (i + 1) * step), 'step': 29})
        sec_shards, rom_shards = 4, 2
        nsample = 6000
    for i in range(4):
        specs.append({'kind': 'boundaries', 'part': i, 'parts': 4})
    for i in range(sec_shards):
        w = 86400 // sec_shards
        specs.append({'kind': 'seconds', 'lo': i * w, 'hi': (i + 1) * w})
    for i in range(rom_shards):
        w = 4000 // rom_shards
        specs.append({'kind': 'roman', 'lo': i * w, 'hi': (i + 1) * w})
    specs.append({'kind': 'bases', 'nsample': nsample})
    specs.append({'kind': 'cellpath', 'n': 1500 if tier == 'quick' else 20000})
    return specs


def check_case(case, ctx):
    k = case['kind']
    if k == 'serials':
        check_serials(case['list'], ctx)
    elif k == 'outside':
        check_outside(ctx)
    elif k == 'seconds':
        check_seconds(case['lo'], case['hi'], ctx)
    elif k == 'base':
        check_base(case['name'], case['values'] or [0], ctx)
    elif k == 'roman':
        check_roman(case['lo'], case['hi'], ctx)
    elif k == 'roman_outside':
        check_roman_outside(ctx)
    elif k == 'cellpath':
        check_cellpath(case['list'], ctx)


def run(spec, ctx):
    k = spec['kind']
    if k == 'serials':
        s = list(range(spec['lo'], spec['hi'], spec['step']))
        for i in range(0, len(s), 50000):
            ctx.open_case({'kind': 'serials', 'lo': s[i]})
            check_serials(s[i:i + 50000], ctx)
        ctx.sample({'serial': s[0], 'ref_ymd': ref_ymd(s[0]),
                    'weekday_modes': {m: ref_weekday(s[0], m) for m in MODES}})
        if spec['step'] == 1:
            ctx.see('exhaustive', 'serials')
    elif k == 'boundaries':
        b = _month_boundaries()[spec['part']::spec['parts']]
        for i in range(0, len(b), 50000):
            check_serials(b[i:i + 50000], ctx)
        ctx.count('boundary_serials', len(b))
        if spec['part'] == 0:
            check_outside(ctx)
    elif k == 'seconds':
        check_seconds(spec['lo'], spec['hi'], ctx)
        ctx.see('exhaustive', 'seconds')
        ctx.sample({'second': spec['lo'], 'TIME': spec['lo'] / 86400})
    elif k == 'roman':
        check_roman(spec['lo'], spec['hi'], ctx)
        ctx.see('exhaustive', 'roman')
        if spec['lo'] == 0:
            check_roman_outside(ctx)
    elif k == 'bases':
        check_base('BIN', range(-520, 520), ctx)
        ctx.see('exhaustive', 'binary')
        for name, (base, bits) in (('OCT', _BASES['OCT']), ('HEX', _BASES['HEX'])):
            lim = 1 << bits
            vals = set()
            for c in (0, lim, -lim, 511, -512, 1 << 29, -(1 << 29)):
                vals.update(range(c - 3, c + 4))
            vals.update(base ** k + d for k in range(0, 11) for d in (-1, 0, 1))
            vals.update(-(base ** k) + d for k in range(0, 11) for d in (-1, 0, 1))
            while len(vals) < spec['nsample'] // 2:
                vals.add(ctx.rng.randrange(-lim - lim // 8, lim + lim // 8))
            check_base(name, sorted(vals), ctx)
        ctx.sample({'DEC2BIN(-512)': _ref_dec2x(-512, 2, 9),
                    'DEC2HEX(-1)': _ref_dec2x(-1, 16, 39)})
    elif k == 'cellpath':
        s = [0, 1, 59, 60, 61, MAXS - 1] + [
            ctx.rng.randrange(0, MAXS) for _ in range(spec['n'])]
        check_cellpath(s, ctx)


def finalize(agg, tier):
    inc = []
    c = agg['counters']
    for k in ('cmp.YEAR', 'cmp.DATE', 'cmp.WEEKDAY', 'cmp.HOUR', 'cmp.ROMAN',
              'cmp.ARABIC', 'cmp.DEC2BIN', 'cmp.HEX2DEC', 'cmp.cellpath'):
        if c.get(k, 0) < 1000:
            inc.append('monitor %s saw only %d events' % (k, c.get(k, 0)))
    ex = {v for v in agg['sets'].get('exhaustive', ())}
    cov = {'exhaustive_subdomains': sorted(ex),
           'exhaustive': tier == 'thorough' and 'serials' in ex}
    return {'inconclusive': inc, 'coverage': cov}
