"""C05 - array evaluation is the scalar rule lifted element-wise and fitted.

Differential monitors:
 (i)  lifting: an element-wise operator / function applied to arguments of
      shapes scalar, 1xn, mx1, mxn must give, position by position, what THE
      SAME real function gives on the corresponding scalars (Excel
      broadcasting), with the broadcast shape;
 (ii) few vs many arguments: variadic element-wise functions must agree with
      their own nesting when they receive >= 32 arguments;
 (iii) fitting: a value stored into a destination range follows the four
      fitting rules (scalar fills, single row / column repeats, surplus
      dropped, unreached cells #N/A).
"""
import itertools
import numpy as np
import schedula as sh

from .. import xl

ID = 'C05'
LEVEL = 'exploration'
RULE = ('lifting cases: (function or operator, shape combination from {scalar, '
        '1xn, mx1, mxn}, m,n <= 4, element values of every kind incl. '
        'TRUE next to 1 and FALSE next to 0, errors, blanks) through the '
        'function table and through Cell formulas; many-argument cases: '
        'CONCATENATE / IFS / SWITCH with 1..40 arguments; fitting cases: '
        'every source shape <= 4x4 into every destination shape <= 5x5 via '
        'Cell(ref, ={literal}) and Ranges().push(ref, value); distinct = '
        'distinct (function, shapes, values) / (source, destination); '
        'non-trivial = compared element by element')
ASSUMPTIONS = [
    'only the compatible shape combinations of the statement are judged '
    '(scalar, single row, single column against an mxn partner, and row '
    'against column); incompatible extents are recorded, not judged',
    'the scalar result is obtained from the same real function, so defects '
    'of the scalar rule itself (C02/C12) do not leak into this check',
    'fitting is judged for *results* (formulas.functions.Array values): a '
    'plain array pushed into a smaller range is a reference-like input and '
    'gives #VALUE! as Excel\'s implicit intersection does (the repository '
    'fixture test.xlsx CORE!J6 pins that)',
]

ERR = xl.err
# name -> (min args, max args, kinds per argument)   n=number t=text a=any b=logical i=small int
FUNCS = {
    'ABS': (1, 1, 'n'), 'INT': (1, 1, 'n'), 'SIGN': (1, 1, 'n'), 'SQRT': (1, 1, 'n'),
    'EXP': (1, 1, 'n'), 'LN': (1, 1, 'n'), 'LOG10': (1, 1, 'n'), 'LOG': (1, 2, 'nn'),
    'POWER': (2, 2, 'nn'), 'MOD': (2, 2, 'nn'), 'ROUND': (2, 2, 'ni'),
    'ROUNDUP': (2, 2, 'ni'), 'ROUNDDOWN': (2, 2, 'ni'), 'TRUNC': (1, 2, 'ni'),
    'CEILING': (2, 2, 'nn'), 'FLOOR': (2, 2, 'nn'), 'EVEN': (1, 1, 'n'),
    'ODD': (1, 1, 'n'), 'SIN': (1, 1, 'n'), 'COS': (1, 1, 'n'), 'ATAN2': (2, 2, 'nn'),
    'DEGREES': (1, 1, 'n'), 'FACT': (1, 1, 'i'),
    'LEN': (1, 1, 'a'), 'LEFT': (1, 2, 'ai'), 'RIGHT': (1, 2, 'ai'),
    'MID': (3, 3, 'aii'), 'UPPER': (1, 1, 'a'), 'LOWER': (1, 1, 'a'),
    'TRIM': (1, 1, 'a'), 'FIND': (2, 3, 'aai'), 'SEARCH': (2, 3, 'aai'),
    'REPLACE': (4, 4, 'aiia'), 'SUBSTITUTE': (3, 4, 'aaai'),
    'CONCATENATE': (1, 5, 'aaaaa'), 'IF': (2, 3, 'baa'), 'IFERROR': (2, 2, 'aa'),
    'IFNA': (2, 2, 'aa'), 'NOT': (1, 1, 'b'), 'IFS': (2, 4, 'baba'),
    'SWITCH': (3, 4, 'aaaa'), 'DATE': (3, 3, 'iii'), 'YEAR': (1, 1, 'n'),
    'DAY': (1, 1, 'n'), 'WEEKDAY': (1, 2, 'ni'), 'TIME': (3, 3, 'iii'),
    'ROMAN': (1, 2, 'ii'), 'CHAR': (1, 1, 'i'), 'VALUE': (1, 1, 'a'),
    'ISNUMBER': (1, 1, 'a'), 'ISTEXT': (1, 1, 'a'), 'ISERROR': (1, 1, 'a'),
    'ISBLANK': (1, 1, 'a'), 'ISLOGICAL': (1, 1, 'a'), 'ISNA': (1, 1, 'a'),
    # (ISODD/ISEVEN, T, DEC2BIN/BIN2DEC are single-value functions in this
    # library; REPT, EXACT, N, PROPER are not implemented)
    'CODE': (1, 1, 'a'), 'ISERR': (1, 1, 'a'), 'ISNONTEXT': (1, 1, 'a'),
    'ARABIC': (1, 1, 'a'), 'HOUR': (1, 1, 'n'), 'MONTH': (1, 1, 'n'),
    'RADIANS': (1, 1, 'n'),
    'RANDBETWEEN': None,
}
OPS = ('+', '-', '*', '/', '^', '&', '=', '<>', '<', '>', '<=', '>=')
UNARY = ('U-', 'U+', '%')


def pool(kind, rng):
    if kind == 'n':
        return rng.choice((0.0, 1.0, True, -1.0, 2.5, 7.0, False, 0, 1, 16.0,
                           -3.5, '4', 'x', ERR('#DIV/0!'), sh.EMPTY, 100.0))
    if kind == 'i':
        return rng.choice((0, 1, 2, True, 3, -1, 1.5, False, '2', ERR('#N/A'),
                           sh.EMPTY, 4))
    if kind == 'b':
        return rng.choice((True, False, 1, 0, 1.0, 0.0, 2, 'x', ERR('#REF!'),
                           sh.EMPTY))
    return rng.choice(('abc', 'Ab c', '', 1, True, 1.0, 0, False, 12.5, ' x ',
                       'b', ERR('#VALUE!'), ERR('#N/A'), sh.EMPTY, 'a',
                       # characters outside the ANSI code table, line feeds
                       '\u0436\u0443\u043a', '\u00e9t\u00e9', '\u4e2d', '\u03a9mega',
                       'a\nb', 'XIV', '101'))


SHAPES = ['s', 'r', 'c', 'm']    # scalar, row 1xn, column mx1, matrix mxn


def make_arg(kind, shape, m, n, rng):
    if shape == 's':
        return pool(kind, rng)
    r, c = {'r': (1, n), 'c': (m, 1), 'm': (m, n)}[shape]
    a = np.empty((r, c), object)
    for i in range(r):
        for j in range(c):
            a[i, j] = pool(kind, rng)
    if rng.random() < 0.4 and a.size >= 2:
        # TRUE next to 1 / FALSE next to 0 in one array
        flat = a.ravel()
        k = rng.randrange(a.size - 1)
        flat[k], flat[k + 1] = rng.choice(((1, True), (True, 1), (0, False),
                                           (False, 0), (1.0, True)))
    return a


def _bshape(args):
    rows = max([a.shape[0] for a in args if isinstance(a, np.ndarray)] or [0])
    cols = max([a.shape[1] for a in args if isinstance(a, np.ndarray)] or [0])
    return rows, cols


def compatible(args):
    rows, cols = _bshape(args)
    for a in args:
        if isinstance(a, np.ndarray):
            if a.shape[0] not in (1, rows) or a.shape[1] not in (1, cols):
                return False
    return True


def _el(a, i, j):
    if not isinstance(a, np.ndarray):
        return a
    return a[i if a.shape[0] > 1 else 0, j if a.shape[1] > 1 else 0]


def _j(v):
    return xl.show(xl.canon(v)) if not isinstance(v, np.ndarray) else \
        xl.show(xl.canon(v))


def check_lift(name, f, args, ctx, case):
    """f: real callable taking python scalars / object arrays."""
    ctx.case((name, [_j(a) for a in args]))
    shapes = ''.join('s' if not isinstance(a, np.ndarray) else (
        'r' if a.shape[0] == 1 and a.shape[1] > 1 else
        'c' if a.shape[1] == 1 and a.shape[0] > 1 else
        'e' if a.shape == (1, 1) else 'm') for a in args)
    ctx.see('shape_combo', '%s:%s' % (name, shapes))
    if not compatible(args):
        ctx.count('lift.incompatible-recorded')
        return
    w = {'case': case, 'function': name, 'shapes': shapes,
         'arguments': [_j(a) for a in args]}
    try:
        res = f(*[a.copy() if isinstance(a, np.ndarray) else a for a in args])
    except Exception as ex:
        ctx.violation('lift:raised:%s:%s' % (name, type(ex).__name__), dict(
            w, observed='%s: %s' % (type(ex).__name__, str(ex)[:120]),
            accepted=['an array of element results']))
        return
    rows, cols = _bshape(args)
    out = xl.unwrap(res)
    if rows == 0:
        return       # all scalars: nothing to lift
    if not isinstance(out, np.ndarray) or out.ndim != 2 or out.shape != (rows, cols):
        ctx.violation('lift:shape:%s:%s' % (name, shapes), dict(
            w, observed='shape %s: %s' % (getattr(out, 'shape', None), _j(out)[:200]),
            accepted=['shape %s' % ((rows, cols),)]))
        return
    for i in range(rows):
        for j in range(cols):
            sc = [_el(a, i, j) for a in args]
            try:
                exp = xl.canon(xl.scalar(f(*sc)))
            except Exception as ex:
                ctx.count('lift.scalar-raised')
                continue
            got = xl.canon(out[i, j])
            ctx.count('monitor.lift-elements')
            if got != exp and not xl.same(got, exp, rel=1e-15):
                kinds = ','.join(sorted({xl.kind(x) if not isinstance(x, bool) else 'bool'
                                         for x in sc}))
                ctx.violation('lift:element:%s:%s' % (name, shapes), dict(
                    w, position=[i, j], scalars=[_j(x) for x in sc],
                    observed=xl.show(got), accepted=[xl.show(exp)],
                    element_kinds=kinds))
                return


def run_lift_table(ctx, rng, count):
    import formulas
    from formulas.functions.operators import OPERATORS
    F = formulas.get_functions()
    names = [n for n, v in FUNCS.items() if v]
    for _ in range(count):
        m, n = rng.randint(2, 4), rng.randint(2, 4)
        t = rng.random()
        if t < 0.3:
            name = rng.choice(OPS)
            f = OPERATORS[name]
            kinds = 'aa' if name in ('&', '=', '<>', '<', '>', '<=', '>=') else 'nn'
            k = 2
        elif t < 0.36:
            name = rng.choice(UNARY)
            f, kinds, k = OPERATORS[name], 'n', 1
        else:
            name = rng.choice(names)
            lo, hi, kinds = FUNCS[name]
            k = rng.randint(lo, hi)
            f = F[name]
            if isinstance(f, dict):
                f = f['function']
        shapes = [rng.choice(SHAPES) for _ in range(k)]
        if all(s == 's' for s in shapes):
            shapes[rng.randrange(k)] = rng.choice('rcm')
        args = [make_arg(kinds[i], shapes[i], m, n, rng) for i in range(k)]
        case = {'kind': 'lift', 'name': name,
                'args': [_enc(a) for a in args]}
        ctx.open_case({'kind': 'lift', 'name': name})
        check_lift(name, f, args, ctx, case)
    ctx.sample({'function': name, 'arguments': [_j(a) for a in args]})


def _enc(a):
    if isinstance(a, np.ndarray):
        return {'arr': [[_enc(x) for x in row] for row in a.tolist()]}
    if a is sh.EMPTY:
        return {'blank': 1}
    if xl.kind(a) == 'err':
        return {'err': str(a)}
    if isinstance(a, (bool, np.bool_)):
        return {'bool': bool(a)}
    if isinstance(a, int):
        return {'int': a}
    return a


def _dec(a):
    if isinstance(a, dict):
        if 'arr' in a:
            rows = [[_dec(x) for x in row] for row in a['arr']]
            out = np.empty((len(rows), len(rows[0])), object)
            for i, row in enumerate(rows):
                for j, x in enumerate(row):
                    out[i, j] = x
            return out
        if 'blank' in a:
            return sh.EMPTY
        if 'err' in a:
            return ERR(a['err'])
        if 'bool' in a:
            return a['bool']
        if 'int' in a:
            return a['int']
    return a


def _lit(v):
    k = xl.kind(v)
    if k == 'err':
        return str(v)
    if isinstance(v, (bool, np.bool_)):
        return 'TRUE' if v else 'FALSE'
    if k == 'text':
        return '"%s"' % v
    if v < 0:
        return '-%r' % abs(v)
    return repr(v)


def _arr_lit(a):
    return '{%s}' % ';'.join(','.join(_lit(x) for x in row) for row in a.tolist())


def run_lift_cells(ctx, rng, count):
    """The same rule through Cell formulas with array literals and ranges."""
    from formulas.cell import Cell
    for _ in range(count):
        m, n = rng.randint(2, 3), rng.randint(2, 3)
        name = rng.choice(OPS[:5] + ('&', '=', '<'))
        kinds = 'aa' if name in ('&', '=', '<') else 'nn'
        shapes = [rng.choice('rcm'), rng.choice(SHAPES)]
        rng.shuffle(shapes)
        args = [make_arg(kinds[i], shapes[i], m, n, rng) for i in range(2)]
        # blanks cannot be written in an array literal
        for a in args:
            if isinstance(a, np.ndarray):
                for idx in np.ndindex(a.shape):
                    if a[idx] is sh.EMPTY:
                        a[idx] = 0
        args = [0 if a is sh.EMPTY else a for a in args]
        if not compatible(args):
            continue
        rows, cols = _bshape(args)
        texts = [_arr_lit(a) if isinstance(a, np.ndarray) else (
            '(%s)' % _lit(a)) for a in args]
        formula = '=%s%s%s' % (texts[0], name, texts[1])
        dest = 'A1:%s%d' % ('ABCDE'[cols - 1], rows)
        case = {'kind': 'lift-cell', 'formula': formula, 'dest': dest}
        ctx.case(('cell', formula))
        w = {'case': case, 'formula': formula}
        try:
            d = sh.Dispatcher()
            c = Cell(dest, formula).compile()
            c.add(d)
            out = xl.unwrap(d()[c.output])
        except Exception as ex:
            ctx.violation('lift-cell:raised:%s' % type(ex).__name__, dict(
                w, observed=repr(ex)[:150], accepted=['an array']))
            continue
        for i in range(rows):
            for j in range(cols):
                sc = [_el(a, i, j) for a in args]
                f2 = '=(%s)%s(%s)' % (_lit(sc[0]), name, _lit(sc[1]))
                try:
                    d2 = sh.Dispatcher()
                    c2 = Cell('A1', f2).compile()
                    c2.add(d2)
                    exp = xl.canon(xl.scalar(d2()[c2.output]))
                except Exception:
                    continue
                got = xl.canon(out[i, j]) if isinstance(out, np.ndarray) and \
                    out.shape == (rows, cols) else ('foreign', 'shape')
                ctx.count('monitor.lift-cell-elements')
                if not xl.same(got, exp, rel=1e-15):
                    ctx.violation('lift-cell:element:%s' % name, dict(
                        w, position=[i, j], scalar_formula=f2,
                        observed=xl.show(got), accepted=[xl.show(exp)]))
                    break


# -- (ii) few vs many arguments -------------------------------------------------

def run_many_args(ctx, rng, count):
    import formulas
    F = formulas.get_functions()
    conc = F['CONCATENATE']
    ifs = F['IFS']['function']
    for _ in range(count):
        n = rng.choice((2, 5, 20, 31, 32, 33, 36, 40))
        m = rng.randint(1, 3)
        shape = rng.choice(('s', 's', 'c', 'r', 'mix'))
        args = []
        for i in range(n):
            sp = shape if shape != 'mix' else rng.choice(('s', 'c'))
            if sp == 's' or (i > 0 and rng.random() < 0.5):
                args.append(pool('a', rng))
            else:
                args.append(make_arg('a', sp, m, m, rng))
        args = ['' if a is sh.EMPTY else a for a in args]
        if not compatible(args):
            continue
        case = {'kind': 'many', 'func': 'CONCATENATE', 'args': [_enc(a) for a in args]}
        ctx.case(('many', n, [_j(a) for a in args]))
        ctx.see('arg_count', n)
        w = {'case': case, 'n_args': n, 'arguments': [_j(a) for a in args][:8]}
        try:
            whole = xl.canon(xl.unwrap(conc(*args)))
            k = n // 2
            if n >= 4:
                first = conc(*args[:k])
                nested = xl.canon(xl.unwrap(conc(first, *args[k:])))
            else:
                nested = whole
            ctx.count('monitor.many-args')
            has_err = any(xl.kind(x) == 'err' for a in args for x in (
                a.ravel().tolist() if isinstance(a, np.ndarray) else [a]))
            if not _same_shape_value(whole, nested):
                ctx.violation('many-args:CONCATENATE:%s:%s' % (
                    'ge32' if n >= 32 else 'lt32', 'err' if has_err else 'plain'), dict(
                    w, observed=xl.show(whole), accepted=[xl.show(nested)]))
        except Exception as ex:
            ctx.violation('many-args:raised:%s:%s' % (
                type(ex).__name__, 'ge32' if n >= 32 else 'lt32'), dict(
                w, observed=repr(ex)[:150], accepted=['a value']))
        # lifting holds for >= 32 arguments too
        if n >= 32 or rng.random() < 0.3:
            check_lift('CONCATENATE', conc, [
                a if isinstance(a, np.ndarray) else a for a in args], ctx,
                {'kind': 'lift', 'name': 'CONCATENATE', 'args': [_enc(a) for a in args]})
        # IFS(F,x,...,F,x,c,v) == IFS(c,v)
        pairs = rng.choice((1, 3, 15, 16, 17, 20))
        c, v = make_arg('b', rng.choice('sc'), m, m, rng), make_arg('a', rng.choice('sc'), m, m, rng)
        junk = []
        for _i in range(pairs - 1):
            junk += [False, pool('a', rng)]
        junk = [0 if a is sh.EMPTY else a for a in junk]
        try:
            a1 = xl.canon(xl.unwrap(ifs(*(junk + [c, v]))))
            a2 = xl.canon(xl.unwrap(ifs(c, v)))
            ctx.count('monitor.many-args')
            ctx.see('arg_count', len(junk) + 2)
            if not _same_shape_value(a1, a2):
                ctx.violation('many-args:IFS:%s' % (
                    'ge32' if len(junk) + 2 >= 32 else 'lt32'), {
                    'case': {'kind': 'many', 'func': 'IFS',
                             'args': [_enc(x) for x in junk + [c, v]]},
                    'n_args': len(junk) + 2, 'observed': xl.show(a1),
                    'accepted': [xl.show(a2)]})
        except Exception as ex:
            ctx.count('many-args.ifs-raised')


def _same_shape_value(a, b):
    def norm(x):
        if x[0] == 'arr' and len(x) == 2 and len(x[1]) == 1:
            return x[1][0]
        return x
    return xl.same(norm(a), norm(b))


# -- (iii) fitting ----------------------------------------------------------------

NA = xl.c_err('#N/A')


def ref_fit(src, rows, cols):
    """src: list of rows of canonical values -> fitted rows."""
    sr, sc = len(src), len(src[0])
    out = []
    for i in range(rows):
        row = []
        for j in range(cols):
            ii = 0 if sr == 1 else i
            jj = 0 if sc == 1 else j
            if ii < sr and jj < sc:
                row.append(src[ii][jj])
            else:
                row.append(NA)
        out.append(tuple(row))
    return ('arr',) + tuple(out)


def run_fitting(ctx, rng, exhaustive_shapes=True):
    from formulas.cell import Cell
    from formulas.ranges import Ranges
    shapes = [(1, 1)] + [(r, c) for r in range(1, 5) for c in range(1, 5) if (r, c) != (1, 1)]
    dests = [(r, c) for r in range(1, 6) for c in range(1, 6)]
    k = 0
    for (sr, sc_) in shapes:
        for (dr, dc) in dests:
            k += 1
            vals = [[float(10 * i + j + 1) if (i + j + k) % 5 else
                     ('t%d%d' % (i, j) if (i + j) % 2 else True)
                     for j in range(sc_)] for i in range(sr)]
            src = [[xl.canon(x) for x in row] for row in vals]
            want = ref_fit(src, dr, dc)
            dest = 'A1:%s%d' % ('ABCDE'[dc - 1], dr) if (dr, dc) != (1, 1) else 'A1'
            cls = '%s->%s' % (_scls(sr, sc_), _dcls(sr, sc_, dr, dc))
            ctx.see('fit_class', cls)
            for path in ('cell', 'push'):
                case = {'kind': 'fit', 'src': vals, 'dest': [dr, dc], 'path': path}
                ctx.case(('fit', sr, sc_, dr, dc, path))
                try:
                    if path == 'cell':
                        lit = _arr_lit(np.array(vals, object)) if (sr, sc_) != (1, 1) \
                            else _lit(vals[0][0])
                        d = sh.Dispatcher()
                        c = Cell(dest, '=' + lit).compile()
                        c.add(d)
                        got = xl.canon(d()[c.output])
                    else:
                        from formulas.functions import Array
                        v = np.array(vals, object).view(Array) \
                            if (sr, sc_) != (1, 1) else vals[0][0]
                        got = xl.canon(Ranges().push(dest, v).value)
                except Exception as ex:
                    ctx.violation('fit:raised:%s:%s:%s' % (path, cls, type(ex).__name__), {
                        'case': case, 'observed': repr(ex)[:150],
                        'accepted': [xl.show(want)]})
                    continue
                ctx.count('monitor.fit')
                if got != want:
                    ctx.violation('fit:%s:%s' % (path, cls), {
                        'case': case, 'observed': xl.show(got),
                        'accepted': [xl.show(want)]})
            # computed results: the same formula over an input range X is
            # stored into a range of X's own shape (the unfitted result) and
            # into this destination; IS... arrays only as arguments (their own
            # padding is the library's choice)
            tmpl = FIT_TEMPLATES[k % len(FIT_TEMPLATES)]
            if tmpl == '=@' and (dr < sr or dc < sc_) and (sr, sc_) != (1, 1):
                continue        # a reference that does not fit: implicit intersection
            if sr * sc_ == dr * dc and (sr, sc_) != (dr, dc):
                continue        # open finding C05-equal-size-reshaped (the two paths above)
            xref = 'H1' if (sr, sc_) == (1, 1) else 'H1:%s%d' % ('HIJK'[sc_ - 1], sr)
            exact = 'A1' if (sr, sc_) == (1, 1) else 'A1:%s%d' % ('ABCD'[sc_ - 1], sr)
            formula = tmpl.replace('@', xref)
            case = {'kind': 'fit-computed', 'src': vals, 'dest': [dr, dc],
                    'formula': formula}
            ctx.case(('fit-computed', sr, sc_, dr, dc, tmpl))
            arr = np.empty((sr, sc_), object)
            for i in range(sr):
                for j in range(sc_):
                    arr[i, j] = vals[i][j]
            try:
                res = []
                for ref in (exact, dest):
                    d = sh.Dispatcher()
                    c = Cell(ref, formula).compile()
                    c.add(d)
                    res.append(xl.canon(d({xref: arr if (sr, sc_) != (1, 1) else vals[0][0]})[
                        c.output]))
            except Exception as ex:
                ctx.violation('fit:raised:computed:%s:%s' % (cls, type(ex).__name__), {
                    'case': case, 'observed': repr(ex)[:150], 'accepted': ['a value']})
                continue
            unfitted = res[0][1:] if res[0][0] == 'arr' else ((res[0],),)
            want = ref_fit([list(r) for r in unfitted], dr, dc)
            got = res[1] if res[1][0] == 'arr' else ('arr', (res[1],))
            ctx.count('monitor.fit-computed')
            if got != want:
                ctx.violation('fit:computed:%s:%s' % (tmpl.replace('@', 'X'), cls), {
                    'case': case, 'unfitted_result': xl.show(res[0]),
                    'observed': xl.show(got), 'accepted': [xl.show(want)]})
    ctx.sample({'source': vals, 'destination': [dr, dc], 'fitted': xl.show(want)})


FIT_TEMPLATES = ['=IF(ISNUMBER(@),@,"t")', '=NOT(ISTEXT(@))', '=ISNUMBER(@)=TRUE',
                 '=ISERROR(@)&""', '=@', '=+@', '=@&"z"', '=IFS(ISNUMBER(@),1,TRUE,2)',
                 '=IF(ISTEXT(@),@,@)', '=@', '=SWITCH(ISTEXT(@),TRUE,@,7)']


def _scls(r, c):
    if (r, c) == (1, 1):
        return 'scalar'
    if r == 1:
        return 'row'
    if c == 1:
        return 'col'
    return 'matrix'


def _dcls(sr, sc_, dr, dc):
    a = 'same' if dr == sr else ('fewer' if dr < sr else 'more')
    b = 'same' if dc == sc_ else ('fewer' if dc < sc_ else 'more')
    return 'rows-%s/cols-%s' % (a, b)


def plan(tier, seed):
    specs = [{'kind': 'fitting'}]
    n = 10 if tier == 'quick' else 40
    for i in range(n):
        specs.append({'kind': 'lift', 'count': 2500 if tier == 'quick' else 8000})
    specs.append({'kind': 'lift-cells', 'count': 250 if tier == 'quick' else 4000})
    for i in range(2 if tier == 'quick' else 8):
        specs.append({'kind': 'many', 'count': 250 if tier == 'quick' else 1500})
    return specs


def check_case(case, ctx):
    import formulas
    k = case['kind']
    if k == 'lift':
        from formulas.functions.operators import OPERATORS
        F = formulas.get_functions()
        name = case['name']
        f = OPERATORS[name] if name in OPERATORS else F[name]
        if isinstance(f, dict):
            f = f['function']
        check_lift(name, f, [_dec(a) for a in case['args']], ctx, case)
    elif k in ('fit', 'fit-computed'):
        run_fitting(ctx, ctx.rng)      # the fitting sweep is deterministic
    elif k == 'many':
        F = formulas.get_functions()
        f = F[case['func']]
        if isinstance(f, dict):
            f = f['function']
        args = [_dec(a) for a in case['args']]
        ctx.sample({'result': xl.show(xl.canon(xl.unwrap(f(*args))))})
        check_lift(case['func'], f, args, ctx, case)
    elif k == 'lift-cell':
        run_lift_cells(ctx, ctx.rng, 50)


def run(spec, ctx):
    k = spec['kind']
    if k == 'fitting':
        run_fitting(ctx, ctx.rng)
        ctx.see('exhaustive', 'fitting shapes <=4x4 -> <=5x5')
    elif k == 'lift':
        run_lift_table(ctx, ctx.rng, spec['count'])
    elif k == 'lift-cells':
        run_lift_cells(ctx, ctx.rng, spec['count'])
    elif k == 'many':
        run_many_args(ctx, ctx.rng, spec['count'])


def finalize(agg, tier):
    c, inc = agg['counters'], []
    for k, floor in (('monitor.lift-elements', 20000), ('monitor.fit', 700),
                     ('monitor.many-args', 300), ('monitor.lift-cell-elements', 500),
                     ('monitor.fit-computed', 250)):
        if c.get(k, 0) < floor:
            inc.append('monitor %s saw %d events (< %d)' % (k, c.get(k, 0), floor))
    counts = set(agg['sets'].get('arg_count', ()))
    if not any(n >= 32 for n in counts):
        inc.append('the >= 32-argument path was never driven')
    combos = agg['sets'].get('shape_combo', ())
    return {'inconclusive': inc, 'coverage': {
        'shape_combinations_seen': len(combos),
        'argument_counts_seen': sorted(counts),
        'fit_classes': sorted(agg['sets'].get('fit_class', ()))}}
