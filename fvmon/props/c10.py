"""C10 - circular references: termination, isolation and exact marking.

 (f) cycle analysis: formulas.excel.cycle.simple_cycles vs a brute-force
     enumeration of elementary cycles on ALL directed graphs with <= 4 nodes
     (self-loops included) and on random graphs up to 9 nodes, under several
     node orders;
 (a-e,g) workbooks built on random cyclic dependency graphs through cells,
     ranges and names with plain and guarded (IF / IFS / IFERROR / IFNA)
     edges: a reference evaluator follows only *selected* edges; cells on a
     cycle of selected edges must be the circular error (identity), cells that
     reach no such cycle must have the reference value, dependents must see an
     error unless they intercept it, the whole load+calculate must stay under
     a step budget, and all cell orders / hash seeds must agree.
"""
import os
import random
import itertools

from .. import xl, steps, bootstrap

ID = 'C10'
LEVEL = 'exploration'
RULE = ('graph cases: every digraph on <= 4 labelled nodes incl. self-loops '
        '(2^16 + 2^9 + 2^4 + 2, exhaustive in both tiers) and random graphs '
        'to 9 nodes, each under several adjacency orders; workbook cases: '
        '(cyclic workbook description, cell order, hash seed) with 4-9 formula '
        'cells, plain / guarded edges, guards constant or acyclic, all guard '
        'values; distinct = distinct graph / (workbook, order, seed); '
        'non-trivial = compared with the brute-force cycles / the selected-'
        'edge reference')
ASSUMPTIONS = [
    'guards are constants or cells outside every cycle, so the set of '
    'selected edges is determined before any cyclic cell is evaluated',
    'the "must be the circular error" clause is judged for cycles made of '
    'plain arithmetic / SUM / name edges only; an edge through the value '
    'position of IFERROR / IFNA or through ISERROR intercepts errors and is '
    'judged by local consistency only',
    'a dependent of a circular cell must be *an* error value unless it '
    'intercepts it (IFERROR / ISERROR); which error is not prescribed',
    'termination is decided as bounded progress: PY_START events of one '
    'load + finish(circular) + calculate stay under STEP_BUDGET',
]
STEP_BUDGET = 40_000_000


# -- (f) cycle analysis ---------------------------------------------------------

def brute_cycles(adj):
    """Elementary cycles as rotation-normalised tuples (start = smallest)."""
    nodes = sorted(adj)
    out = set()
    for s in nodes:
        stack = [(s, [s])]
        while stack:
            v, path = stack.pop()
            for w in adj[v]:
                if w == s:
                    out.add(tuple(path))
                elif w > s and w not in path:
                    stack.append((w, path + [w]))
    return out


def norm_cycle(c):
    i = c.index(min(c))
    return tuple(c[i:] + c[:i])


def check_graph(adj, ctx, order_rng=None, label=None):
    from formulas.excel.cycle import simple_cycles
    want = brute_cycles(adj)
    variants = [adj]
    if order_rng is not None:
        keys = list(adj)
        order_rng.shuffle(keys)
        variants.append({k: sorted(adj[k], reverse=True) for k in keys})
        variants.append({str(k): [str(x) for x in adj[k]] for k in reversed(keys)})
    for g in variants:
        case = {'kind': 'graph', 'adj': {str(k): [str(x) for x in v]
                                          for k, v in g.items()}}
        try:
            got = [list(c) for c in simple_cycles(g)]
        except Exception as ex:
            ctx.violation('cycles:raised:%s' % type(ex).__name__, {
                'case': case, 'observed': repr(ex)[:150],
                'accepted': [sorted(map(list, want))]})
            continue
        ctx.count('monitor.cycles')
        strs = all(isinstance(k, str) for k in g)
        normed = [norm_cycle([int(x) for x in c] if strs else list(c)) for c in got]
        n = len(adj)
        if len(set(normed)) != len(normed):
            ctx.violation('cycles:duplicate:n%d' % n, {
                'case': case, 'observed': sorted(map(list, normed)),
                'accepted': [sorted(map(list, want))]})
        elif set(normed) != want:
            kind = 'missing' if want - set(normed) else 'spurious'
            ctx.violation('cycles:%s:n%d' % (kind, n), {
                'case': case, 'observed': sorted(map(list, normed)),
                'accepted': [sorted(map(list, want))]})


def graphs_of(n, lo, hi):
    """Graphs number lo..hi-1 of the 2^(n*n) digraphs on n nodes."""
    for code in range(lo, hi):
        adj = {i: [] for i in range(n)}
        for b in range(n * n):
            if code >> b & 1:
                adj[b // n].append(b % n)
        yield adj


# -- cyclic workbooks -------------------------------------------------------------

ERR = ('err',)


def gen_workbook(rng):
    """-> description {'cells': {name: tree}, 'consts': {...}, 'names': {...}}

    trees: ['num', k] ['ref', c] ['add', a, b] ['if', guard, a, b]
           ['ifs', g1, a, b] (IFS(g1, a, TRUE, b)) ['iferror', a, b]
           ['ifna', a, b] ['sum', c1, c2] ['name', N] ['iserr', a]
    guard: ['g', cell]  (cell holds TRUE/FALSE/0/1 or is an acyclic formula)
    """
    n = rng.randint(4, 9)
    cells = ['A%d' % i for i in range(1, n + 1)]
    consts = {}
    for i in range(1, 5):
        consts['G%d' % i] = rng.choice((True, False, 1.0, 0.0))
    consts['K1'] = float(rng.randint(1, 9))
    guards = ['G%d' % i for i in range(1, 5)]
    desc = {'cells': {}, 'consts': consts, 'names': {}, 'acyclic': {}}
    # acyclic helper formulas usable as guards / constants
    desc['acyclic']['H1'] = ['g', 'G1']                       # =G1
    desc['acyclic']['H2'] = ['add', ['ref', 'K1'], ['num', 1.0]]
    guards.append('H1')
    if rng.random() < 0.5:
        desc['names']['NM'] = rng.choice(cells)
    p_edge = rng.choice((0.15, 0.25, 0.35))
    for u in cells:
        terms = [['num', float(rng.randint(0, 5))]]
        targets = [v for v in cells if rng.random() < p_edge]
        if rng.random() < 0.04:
            targets.append(u)             # self-loop
        for v in targets:
            ref = ['ref', v]
            if desc['names'].get('NM') == v and rng.random() < 0.5:
                ref = ['name', 'NM']
            t = rng.random()
            g = ['g', rng.choice(guards)]
            k = ['num', float(rng.randint(1, 9))]
            if t < 0.35:
                terms.append(ref)                                  # plain
            elif t < 0.5:
                terms.append(['if', g, ref, k])
            elif t < 0.6:
                terms.append(['if', g, k, ref])
            elif t < 0.68:
                terms.append(['ifs', g, ref, k])
            elif t < 0.76:
                terms.append(['iferror', rng.choice((k, ['ref', 'H2'], ['div0'])), ref])
            elif t < 0.82:
                terms.append(['iferror', ref, k])                  # value position
            elif t < 0.88:
                terms.append(['ifna', rng.choice((k, ['na'])), ref])
            elif t < 0.94:
                terms.append(['if', g, ['add', ref, k], ['ref', 'K1']])
            else:
                terms.append(['iserr', ref])
        if rng.random() < 0.12 and n >= 3:
            i = rng.randint(1, n - 1)
            terms.append(['sum', 'A%d' % i, 'A%d' % (i + 1)])
        tree = terms[0]
        for t in terms[1:]:
            tree = ['add', tree, t]
        desc['cells'][u] = tree
    # observers outside the cycles
    desc['cells']['C1'] = ['iferror', ['ref', rng.choice(cells)], ['num', -1.0]]
    desc['cells']['C2'] = ['iserr', ['ref', rng.choice(cells)]]
    desc['cells']['C3'] = ['add', ['ref', rng.choice(cells)], ['num', 1.0]]
    desc['cells']['C4'] = ['add', ['ref', 'K1'], ['ref', 'H2']]
    return desc


def text(t):
    k = t[0]
    if k == 'num':
        return '%d' % t[1]
    if k == 'ref':
        return t[1]
    if k == 'name':
        return t[1]
    if k == 'g':
        return t[1]
    if k == 'div0':
        return '(1/0)'
    if k == 'na':
        return 'NA()'
    if k == 'add':
        return '(%s+%s)' % (text(t[1]), text(t[2]))
    if k == 'if':
        return 'IF(%s,%s,%s)' % (text(t[1]), text(t[2]), text(t[3]))
    if k == 'ifs':
        return 'IFS(%s,%s,TRUE,%s)' % (text(t[1]), text(t[2]), text(t[3]))
    if k == 'iferror':
        return 'IFERROR(%s,%s)' % (text(t[1]), text(t[2]))
    if k == 'ifna':
        return 'IFNA(%s,%s)' % (text(t[1]), text(t[2]))
    if k == 'sum':
        return 'SUM(%s:%s)' % (t[1], t[2])
    if k == 'iserr':
        return 'ISERROR(%s)' % text(t[1])
    raise ValueError(k)


def to_dict(desc, order=None):
    items = [(k, v) for k, v in desc['consts'].items()]
    items += [(k, '=' + text(v)) for k, v in desc['acyclic'].items()]
    items += [(k, '=' + text(v)) for k, v in desc['cells'].items()]
    if order:
        items = order(items)
    return dict(items)


class CycleHit(Exception):
    def __init__(self, target):
        self.target = target


class Lazy:
    """Reference: follows only selected edges; CIRC marks cells on a cycle of
    selected edges; other errors propagate."""
    CIRC = ('err', '#CIRC!')

    def __init__(self, desc):
        self.desc = desc
        self.val = {}
        self.stack = []
        self.cyclic = set()
        self.tainted = set()     # evaluated through a circular cell

    def cell(self, name):
        v = self._cell(name)
        if self.stack and (name in self.cyclic or name in self.tainted):
            self.tainted.add(self.stack[-1])
        return v

    def _cell(self, name):
        d = self.desc
        if name in d['consts']:
            return xl.canon(d['consts'][name])
        if name in self.val:
            return self.val[name]
        if name in self.stack:
            raise CycleHit(name)
        tree = d['cells'].get(name) or d['acyclic'].get(name)
        if tree is None:
            return xl.BLANK
        self.stack.append(name)
        try:
            v = self.ev(tree)
        except CycleHit as hit:
            self.stack.pop()
            self.cyclic.add(name)
            self.val[name] = self.CIRC
            if self.stack:
                self.tainted.add(self.stack[-1])
            if hit.target != name:
                raise
            return self.CIRC
        self.stack.pop()
        self.val[name] = v
        return v

    def num(self, v):
        if v[0] == 'err':
            return v
        if v[0] == 'num':
            return v
        if v[0] == 'bool':
            return xl.c_num(1.0 if v[1] else 0.0)
        if v[0] == 'blank':
            return xl.c_num(0)
        return ('err', '#VALUE!')

    def ev(self, t):
        k = t[0]
        if k == 'num':
            return xl.c_num(t[1])
        if k in ('ref', 'g'):
            v = self.cell(t[1])
            return v
        if k == 'name':
            return self.cell(self.desc['names'][t[1]])
        if k == 'div0':
            return ('err', '#DIV/0!')
        if k == 'na':
            return ('err', '#N/A')
        if k == 'add':
            a = self.num(self.ev(t[1]))
            b = self.num(self.ev(t[2]))
            if a[0] == 'err':
                return a
            if b[0] == 'err':
                return b
            return xl.c_num(a[1] + b[1])
        if k in ('if', 'ifs'):
            c = self.ev(t[1])
            if c[0] == 'err':
                return c
            sel = bool(c[1]) if c[0] in ('bool', 'num') else False
            return self.ev(t[2] if sel else t[3])
        if k == 'iferror':
            a = self.ev(t[1])
            return self.ev(t[2]) if a[0] == 'err' else a
        if k == 'ifna':
            a = self.ev(t[1])
            return self.ev(t[2]) if a == ('err', '#N/A') else a
        if k == 'sum':
            c1, c2 = int(t[1][1:]), int(t[2][1:])
            tot, err = 0.0, None
            for i in range(c1, c2 + 1):
                v = self.cell('A%d' % i)
                if v[0] == 'err':
                    err = err or v
                elif v[0] == 'num':
                    tot += v[1]
            return err or xl.c_num(tot)
        if k == 'iserr':
            return xl.c_bool(self.ev(t[1])[0] == 'err')
        raise ValueError(k)

    def solve(self):
        out = {}
        for name in list(self.desc['cells']) + list(self.desc['acyclic']):
            self.stack = []
            try:
                out[name] = self.cell(name)
            except CycleHit:
                out[name] = self.CIRC
        # a second pass: cells evaluated before a cycle was discovered keep
        # their values; cells on cycles are CIRC
        return out


def edges_of(desc):
    """cell -> list of (target, guarded?, selected-by-guards?) static edges.

    guarded positions: IF / IFS value branches, IFERROR / IFNA fallback.
    `selected` is decided by the guard values only (they are acyclic)."""
    lazy = Lazy(desc)

    def walk(t, guarded, selected, out):
        k = t[0]
        if k in ('ref', 'g'):
            out.append((t[1], guarded, selected))
        elif k == 'name':
            out.append((desc['names'][t[1]], guarded, selected))
        elif k == 'sum':
            for i in range(int(t[1][1:]), int(t[2][1:]) + 1):
                out.append(('A%d' % i, guarded, selected))
        elif k in ('if', 'ifs'):
            walk(t[1], guarded, selected, out)
            try:
                c = lazy.ev(t[1])
                sel = bool(c[1]) if c[0] in ('bool', 'num') else False
            except CycleHit:
                sel = None
            walk(t[2], True, selected and sel is True, out)
            walk(t[3], True, selected and sel is False, out)
        elif k in ('iferror', 'ifna', 'iserr'):
            # the value position is always evaluated but its errors are
            # intercepted: such an edge is neither "plain" nor avoidable
            walk(t[1], True, selected, out)
            if k != 'iserr':
                walk(t[2], True, None, out)   # selection depends on a value
        else:
            for x in t[1:]:
                if isinstance(x, list):
                    walk(x, guarded, selected, out)
        return out
    return {k: walk(v, False, True, []) for k, v in
            list(desc['cells'].items()) + list(desc['acyclic'].items())}


def sccs(adj):
    index, low, stack, on, out, n = {}, {}, [], set(), [], [0]

    def go(v):
        index[v] = low[v] = n[0]
        n[0] += 1
        stack.append(v)
        on.add(v)
        for w in adj.get(v, ()):
            if w not in adj:
                continue
            if w not in index:
                go(w)
                low[v] = min(low[v], low[w])
            elif w in on:
                low[v] = min(low[v], index[w])
        if low[v] == index[v]:
            comp = set()
            while True:
                w = stack.pop()
                on.discard(w)
                comp.add(w)
                if w == v:
                    break
            out.append(comp)
    for v in adj:
        if v not in index:
            go(v)
    return out


def classify(desc):
    """-> (isolated cells, plain-cycle cells, fully-unselected-component cells,
           cells of any cyclic component)"""
    E = edges_of(desc)
    adj = {k: {t for t, _g, _s in v} for k, v in E.items()}
    comps = [c for c in sccs(adj) if len(c) > 1 or any(
        next(iter(c)) in adj[next(iter(c))] for _ in [0])]
    cyclic = set().union(*comps) if comps else set()
    # downstream of cyclic components
    reach_cyc = set(cyclic)
    changed = True
    while changed:
        changed = False
        for k, ts in adj.items():
            if k not in reach_cyc and ts & reach_cyc:
                reach_cyc.add(k)
                changed = True
    isolated = set(adj) - reach_cyc
    plain_cycle, unselected = set(), set()
    for comp in comps:
        plain = {k: {t for t, g, _s in E[k] if not g and t in comp} for k in comp}
        pc = [c for c in sccs(plain) if len(c) > 1 or next(iter(c)) in plain[next(iter(c))]]
        for c in pc:
            plain_cycle |= c
        guarded_selected = any(
            g and s is not False for k in comp for t, g, s in E[k] if t in comp)
        if not pc and not guarded_selected:
            unselected |= comp
    return isolated, plain_cycle, unselected, cyclic


def _range_members_in_cycles(desc, cyclic):
    """Cells covered by a SUM(range) whose reader lies in a cyclic component
    (see known finding C10-unselected-cycle-range-member)."""
    out = set()

    def walk(t, reader):
        if t[0] == 'sum' and reader in cyclic:
            for i in range(int(t[1][1:]), int(t[2][1:]) + 1):
                out.add('A%d' % i)
        for x in t[1:]:
            if isinstance(x, list):
                walk(x, reader)
    for k, v in desc['cells'].items():
        walk(v, k)
    return out


def local_eval(desc, name, reported):
    """Lazy evaluation of one cell's formula over the *reported* values."""
    lz = Lazy(desc)
    lz.val = {k: v for k, v in reported.items() if k != name}
    tree = desc['cells'].get(name) or desc['acyclic'].get(name)
    try:
        return lz.ev(tree)
    except CycleHit:
        return None


def check_workbook(case, ctx, st=None):
    import formulas
    desc = case['desc']
    order = None
    if case.get('perm') is not None:
        def order(items, seed=case['perm']):
            items = list(items)
            random.Random('perm/%s' % seed).shuffle(items)
            return items
    d = to_dict(desc, order)
    st = st or steps.make(bootstrap.REPO)
    holder = {}

    def go():
        if case.get('path') == 'xlsx':
            m = load_xlsx(desc, d)
        else:
            m = formulas.ExcelModel().from_dict(d, assemble=False)
        m.finish(complete=False, circular=True)
        holder['sol'] = m.calculate()

    n, _res, ex = st.run(go, STEP_BUDGET)
    ctx.maximum('steps_max', n)
    hs = os.environ.get('PYTHONHASHSEED', '0')
    ctx.case((case['id'], case.get('perm'), hs, case.get('path')))
    w = {'case': case, 'cells': {k: v for k, v in d.items()
                                 if isinstance(v, str) and v.startswith('=')},
         'consts': desc['consts']}
    if ex is not None:
        if isinstance(ex, steps.StepBudgetExceeded):
            ctx.violation('steps-exceeded', dict(
                w, observed='%d steps' % n, accepted=['<= %d' % STEP_BUDGET]))
        else:
            ctx.violation('raised:%s:%s' % (type(ex).__name__, case.get('path', 'dict')), dict(
                w, observed='%s: %s' % (type(ex).__name__, str(ex)[:150]),
                accepted=['a solution']))
        return None
    sol = holder['sol']
    lazy = Lazy(desc)
    want = lazy.solve()
    isolated, plain_cycle, unselected, cyclic = classify(desc)
    unselected -= (lazy.tainted | lazy.cyclic)
    range_members = _range_members_in_cycles(desc, cyclic)
    # ... and every cell that shares a cyclic component with such a member:
    # the refusal to cut the component's cycle marks all of its cells
    E_ = edges_of(desc)
    adj_ = {k: {t for t, _g, _s in v} for k, v in E_.items()}
    for comp in sccs(adj_):
        if len(comp) > 1 and comp & range_members:
            range_members = range_members | comp
    obs = {}
    prefix = case.get('prefix', '')
    for name in want:
        v = sol.get(prefix + name)
        if v is None:
            obs[name] = ('missing',)
        else:
            try:
                obs[name] = xl.canon(xl.scalar(v))
            except Exception:
                obs[name] = ('foreign', 'unreadable')
    reported = dict(obs)
    for k, v in desc['consts'].items():
        reported[k] = xl.canon(v)
    ctx.count('monitor.workbook')
    for name, wv in want.items():
        o = obs[name]
        if name in isolated:                                   # clause (b)
            ctx.count('monitor.isolated')
            if not xl.same(o, wv):
                ctx.violation('isolated-cell-differs:%s->%s' % (
                    wbrun_cls(o), wbrun_cls(wv)), dict(
                    w, cell=name, observed=xl.show(o), accepted=[xl.show(wv)]))
            continue
        if name in plain_cycle:                                # clause (c)
            ctx.count('monitor.on-unguarded-cycle')
            if o != Lazy.CIRC:
                ctx.violation('unguarded-cycle-cell-not-circular:%s' % wbrun_cls(o), dict(
                    w, cell=name, observed=xl.show(o), accepted=['#CIRC! (identity)']))
            continue
        if name in unselected:                                 # clause (e)
            ctx.count('monitor.unselected-cycle')
            if not xl.same(o, wv):
                # a value that follows from what the selected inputs report is
                # a consequence of a deviation upstream (judged there), not a
                # cycle that failed to resolve here
                loc = local_eval(desc, name, reported)
                if loc is not None and xl.same(o, loc):
                    ctx.count('monitor.unselected-cycle.consistent-with-reported-inputs')
                    continue
                tag = ':range-member' if name in range_members else ''
                ctx.violation('unselected-cycle-not-resolved:%s->%s%s' % (
                    wbrun_cls(o), wbrun_cls(wv), tag), dict(
                    w, cell=name, observed=xl.show(o), accepted=[xl.show(wv)],
                    member_of_range_read_inside_another_cycle=name in range_members))
            continue
        # clause (d): local consistency under lazy evaluation
        loc = local_eval(desc, name, reported)
        if loc is None:
            continue
        if o[0] != 'err':
            ctx.count('monitor.lazy-value')
            if not xl.same(o, loc):
                ctx.violation('ordinary-value-not-lazy:%s->%s' % (
                    wbrun_cls(o), wbrun_cls(loc)), dict(
                    w, cell=name, observed=xl.show(o), accepted=[xl.show(loc)]))
        elif name not in cyclic:
            ctx.count('monitor.dependent-error')
            if loc[0] != 'err':
                ctx.violation('error-without-cause:%s' % wbrun_cls(o), dict(
                    w, cell=name, observed=xl.show(o), accepted=[xl.show(loc)]))
    for name, o in obs.items():
        # a selected input that is an error must make a plain dependent an error
        if name in cyclic or o[0] == 'err':
            continue
        loc = local_eval(desc, name, reported)
        if loc is not None and loc[0] == 'err':
            ctx.violation('dependent-not-error:%s' % wbrun_cls(o), dict(
                w, cell=name, observed=xl.show(o), accepted=['an error value']))
    ctx.see('component_kinds', '%d-plain/%d-unselected/%d-cyclic' % (
        bool(plain_cycle), bool(unselected), bool(cyclic)))
    return obs


def load_xlsx(desc, d):
    """The same workbook written with openpyxl (defined names included)."""
    import openpyxl
    import formulas
    from openpyxl.workbook.defined_name import DefinedName
    from .. import worker
    wb = openpyxl.Workbook()
    ws = wb.active
    ws.title = 'S'
    for k, v in d.items():
        if k in desc['names']:
            continue
        ws[k] = v
    for nm, target in desc['names'].items():
        wb.defined_names[nm] = DefinedName(nm, attr_text='S!$%s$%s' % (target[0], target[1:]))
    path = os.path.join(worker.scratch_dir(), 'c10.xlsx')
    wb.save(path)
    return formulas.ExcelModel().loads(path)


def wbrun_cls(c):
    return c[1] if c[0] == 'err' else c[0]


def make_wb(seed, i):
    return gen_workbook(random.Random('fvmon/C10/%s/%s' % (seed, i)))


# -- a cycle through a range whose other members are ordinary formulas -----------------

def make_range_case(seed, i):
    rng = random.Random('fvmon/C10/range/%s/%s' % (seed, i))
    n = rng.randint(2, 4)
    col = 'B'
    k_cyc = rng.randint(1, n)                   # the member that closes the cycle
    items, expect = [], {}
    consts = {'F%d' % r: float(rng.randint(1, 9)) for r in range(1, 5)}
    items += list(consts.items())
    rng_text = '%s1:%s%d' % (col, col, n)
    via = rng.choice(('direct', 'name', 'wide'))
    if via == 'name':
        items.append(('BLOCK', '=$B$1:$B$%d' % n))
        total = '=SUM(BLOCK)'
    elif via == 'wide':
        total = '=SUM(B1:C%d)' % n             # total over a wider rectangle
        rng_text = 'B1:C%d' % n
    else:
        total = '=SUM(%s)' % rng_text
    items.append(('A1', total))
    vals = dict(consts)
    for r in range(1, n + 1):
        cell = '%s%d' % (col, r)
        if r == k_cyc:
            items.append((cell, rng.choice(('=A1', '=A1+1', '=IF(TRUE,A1,0)'))))
            expect[cell] = '#CIRC!'
            continue
        depth = rng.randint(0, 3)
        if depth == 0:
            v = float(rng.randint(1, 9))
            items.append((cell, v))
        else:
            # a chain G<r>_1 .. of helper formulas over the constants
            prev, v = 'F%d' % r, consts['F%d' % r]
            for d_ in range(1, depth):
                h = '%s%d' % ('GHI'[d_ - 1], r)
                k = float(rng.randint(2, 4))
                items.append((h, '=%s*%d' % (prev, k)))
                v = v * k
                expect[h] = v
                prev = h
            k = float(rng.randint(1, 9))
            items.append((cell, '=%s+%d' % (prev, k)))
            v = v + k
        expect[cell] = v
        vals[cell] = v
        reader = 'E%d' % r
        items.append((reader, '=%s+1' % cell))
        expect[reader] = v + 1
    expect['A1'] = '#CIRC!'
    items.append(('D1', '=A1+1'))
    expect['D1'] = '#CIRC!'
    rng.shuffle(items)
    return {'kind': 'range-member', 'id': '%s/%s' % (seed, i), 'items': [list(x) for x in items],
            'expect': expect, 'via': via, 'range': rng_text}


def check_range_case(case, ctx):
    import formulas
    try:
        m = formulas.ExcelModel().from_dict(dict(map(tuple, case['items'])))
        m.finish(circular=True)
        sol = m.calculate()
    except Exception as ex:
        ctx.violation('range-member:raised:%s' % type(ex).__name__, {
            'case': case, 'observed': '%s: %s' % (type(ex).__name__, str(ex)[:150]),
            'accepted': ['a solution']})
        return
    ctx.case(('range-member', case['id']))
    for cell, want in sorted(case['expect'].items()):
        got = xl.canon(xl.scalar(sol[cell])) if cell in sol else ('missing',)
        w = xl.c_err(want) if isinstance(want, str) else xl.c_num(want)
        if isinstance(want, str):
            ctx.count('monitor.range-cycle-marked')
        else:
            ctx.count('monitor.range-member-isolated')
        if not xl.same(got, w, rel=1e-12):
            ctx.violation('range-member:%s:%s:%s' % (
                'cycle-not-marked' if isinstance(want, str) else 'isolated-member-changed',
                case['via'], got[1] if got[0] == 'err' else got[0]), {
                'case': case, 'cell': cell, 'observed': xl.show(got),
                'accepted': [xl.show(w)], 'cyclic_range': case['range']})
            return


def plan(tier, seed):
    specs = []
    nr = 400 if tier == 'quick' else 6000
    for lo in range(0, nr, 200):
        specs.append({'kind': 'range-members', 'lo': lo, 'hi': lo + 200})
    total = 1 << 16
    shards = 12
    per = total // shards + 1
    for i in range(shards):
        specs.append({'kind': 'graphs4', 'lo': i * per, 'hi': min(total, (i + 1) * per)})
    specs.append({'kind': 'graphs-small'})
    specs.append({'kind': 'graphs-random', 'count': 2500 if tier == 'quick' else 25000})
    nw = 160 if tier == 'quick' else 2400
    seeds = (0, 1, 2, 3) if tier == 'quick' else tuple(range(8))
    per = 40 if tier == 'quick' else 150
    for h in seeds:
        for lo in range(0, nw, per):
            specs.append({'kind': 'workbooks', 'lo': lo, 'hi': min(nw, lo + per),
                          'hashseed': h, 'timeout': 1500})
    return specs


def check_case(case, ctx):
    if case['kind'] == 'graph':
        adj = {int(k): [int(x) for x in v] for k, v in case['adj'].items()}
        check_graph(adj, ctx, random.Random(0))
    elif case['kind'] == 'range-member':
        check_range_case(case, ctx)
    else:
        check_workbook(case, ctx)


def run(spec, ctx):
    k = spec['kind']
    rng = ctx.rng
    if k == 'range-members':
        for i in range(spec['lo'], spec['hi']):
            case = make_range_case(spec['seed'], i)
            ctx.open_case({'kind': 'range-member', 'id': case['id']})
            check_range_case(case, ctx)
        ctx.sample({'range_member_case': dict(map(tuple, case['items']))})
    elif k == 'graphs4':
        n = 0
        for adj in graphs_of(4, spec['lo'], spec['hi']):
            check_graph(adj, ctx, rng if n % 16 == 0 else None)
            n += 1
        ctx.case_bulk(n)
        ctx.see('exhaustive', 'digraphs on 4 nodes')
        ctx.sample({'graph': adj, 'cycles': sorted(map(list, brute_cycles(adj)))})
    elif k == 'graphs-small':
        n = 0
        for nn in (1, 2, 3):
            for adj in graphs_of(nn, 0, 1 << (nn * nn)):
                check_graph(adj, ctx, rng)
                n += 1
        ctx.case_bulk(n)
        ctx.see('exhaustive', 'digraphs on <= 3 nodes')
    elif k == 'graphs-random':
        for _ in range(spec['count']):
            nn = rng.randint(5, 9)
            p = rng.choice((0.1, 0.2, 0.3, 0.45))
            adj = {i: [j for j in range(nn) if rng.random() < p] for i in range(nn)}
            check_graph(adj, ctx, rng)
            ctx.case(sorted((k, tuple(v)) for k, v in adj.items()))
        ctx.sample({'graph': adj})
    else:
        st = steps.make(bootstrap.REPO)
        for i in range(spec['lo'], spec['hi']):
            desc = make_wb(spec['seed'], i)
            first = None
            perms = (None, 0, 1, 2) if not desc['names'] else (None,)
            for perm in perms:
                case = {'kind': 'workbook', 'id': i, 'desc': desc, 'perm': perm}
                if desc['names']:
                    case.update(path='xlsx', prefix="'[c10.xlsx]S'!")
                ctx.open_case({'kind': 'workbook', 'id': i, 'perm': perm})
                obs = check_workbook(case, ctx, st)
                if obs is None:
                    continue
                dg = repr(sorted(obs.items()))
                ctx.see('digest', '%s:%s' % (i, hash_(dg)))
                if first is None:
                    first = dg
                elif dg != first:
                    ctx.violation('order-dependent', {
                        'case': case, 'observed': dg[:300], 'accepted': [first[:300]]})
        ctx.sample({'cells': to_dict(desc)})


def hash_(s):
    import hashlib
    return hashlib.blake2b(s.encode(), digest_size=6).hexdigest()


def finalize(agg, tier):
    c, inc, viols = agg['counters'], [], []
    for k, floor in (('monitor.cycles', 70000), ('monitor.workbook', 400),
                     ('monitor.on-unguarded-cycle', 100), ('monitor.isolated', 500),
                     ('monitor.lazy-value', 300), ('monitor.unselected-cycle', 20),
                     ('monitor.range-member-isolated', 800),
                     ('monitor.range-cycle-marked', 800)):
        if c.get(k, 0) < floor:
            inc.append('monitor %s saw %d events (< %d)' % (k, c.get(k, 0), floor))
    by = {}
    for item in agg['sets'].get('digest', ()):
        i, dg = item.split(':')
        by.setdefault(i, set()).add(dg)
    for i in sorted(i for i, s in by.items() if len(s) > 1)[:5]:
        viols.append({'sig': 'order-dependent:across-processes', 'count': 1,
                      'witness': {'case': {'kind': 'workbook-index', 'index': int(i)},
                                  'observed': sorted(by[i]),
                                  'accepted': ['one outcome for all hash seeds']}})
    return {'inconclusive': inc, 'violations': viols, 'coverage': {
        'exhaustive': True,
        'exhaustive_note': 'cycle analysis on all digraphs with <= 4 nodes',
        'steps_budget': STEP_BUDGET}}
