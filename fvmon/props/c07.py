"""C07 - recalculation with overrides is exact and leaves no trace.

History monitor: a random sequence (<= 8) of calculate / compile / to_dict /
write / deepcopy / dill operations is applied to one live model, then
calculate(inputs=X, outputs=O) is observed and compared with (a) the same call
on a fresh model built from the same description, (b) the reference
evaluation with the overridden cells turned into constants (a name or range
override == overriding the underlying cells), (c) the unrestricted-output
call; an overridden formula cell must not be evaluated in that epoch.
"""
import copy
import random

from .. import xl, wbrun, probes
from ..gen import workbooks as gw
from ..ref import workbook as rw
from .c03 import EvalOrder
from .c08 import _rect_nodes, _lib_arg

ID = 'C07'
LEVEL = 'exploration'
RULE = ('a case is (workbook description, history of <= 8 operations, override '
        'set X, output selection O); X mixes constant cells, formula cells, '
        'plain-reference names (cell and rectangle) and multi-cell range nodes '
        '(dense and sparse) with values of every kind; distinct = distinct '
        '(description, history, X, O); non-trivial = the observed calculation '
        'was compared with a fresh model and with the reference')
ASSUMPTIONS = [
    'override targets within one X are disjoint (a range and one of its own '
    'cells are never overridden together)',
    'memoisation inside the model is legitimate: only results are judged',
]
OPS = ('calc', 'calc_x', 'calc_o', 'compile', 'to_dict', 'write', 'deepcopy',
       'dill', 'calc_x', 'calc', 'calc_same', 'compile_same')


def _name_id(desc, name):
    return "'[%s]'!%s" % (desc['books'][desc['names'][name][1]]['name'], name.upper())


def gen_overrides(rng, desc, n=None):
    """-> list of [kind, key, value] with disjoint targets"""
    consts = wbrun.constant_cells(desc)
    forms = wbrun.formula_cells(desc)
    rects = _rect_nodes(desc)
    out, used = [], set()
    n = n or rng.randint(1, 4)
    for _ in range(n * 3):
        if len(out) >= n:
            break
        t = rng.random()
        if t < 0.45 and consts:
            key = rng.choice(consts)
            cells = {key}
            item = ['cell', list(key), rng.choice(wbrun.VALUE_POOL)]
        elif t < 0.6 and forms:
            key = rng.choice(forms)
            cells = {key}
            item = ['formula-cell', list(key), rng.choice(wbrun.VALUE_POOL)]
        elif t < 0.8 and rects:
            r = rng.choice(rects)
            b, s, c1, r1, c2, r2 = r
            cells = {(b, s, c, rr) for c in range(c1, c2 + 1) for rr in range(r1, r2 + 1)}
            val = [[rng.choice(wbrun.VALUE_POOL[:10]) for _ in range(c1, c2 + 1)]
                   for _ in range(r1, r2 + 1)]
            item = ['range', list(r), val]
        elif desc['names']:
            nm = rng.choice(sorted(desc['names']))
            node = desc['names'][nm]
            if node[0] == 'cell':
                cells = {tuple(node[1:5])}
                item = ['name', [nm], rng.choice(wbrun.VALUE_POOL)]
            elif node[0] == 'rng':
                b, s, c1, r1, c2, r2 = node[1:7]
                if (c2 - c1 + 1) * (r2 - r1 + 1) > 16:
                    continue
                cells = {(b, s, c, rr) for c in range(c1, c2 + 1)
                         for rr in range(r1, r2 + 1)}
                val = [[rng.choice(wbrun.VALUE_POOL[:10]) for _ in range(c1, c2 + 1)]
                       for _ in range(r1, r2 + 1)]
                item = ['name', [nm], val]
            else:
                continue
        else:
            continue
        if cells & used:
            continue
        used |= cells
        out.append(item)
    return out


def to_inputs(desc, X, as_ranges=None):
    """as_ranges: None = plain python values; 'own' = a Ranges object built
    for the node's own address; 'other' = a Ranges object built for another
    address (what one gets when a value of another solution is fed back)."""
    inp = {}
    for kind, key, val in X:
        v = _lib_arg(val)
        if kind in ('cell', 'formula-cell'):
            nid = gw.key_of(desc, *key)
        elif kind == 'range':
            nid = gw.rect_key(desc, *key)
        else:
            nid = _name_id(desc, key[0])
        if as_ranges and kind != 'name':
            from formulas.ranges import Ranges
            import numpy as np
            arr = np.empty((len(v), len(v[0])) if isinstance(v, list) else (1, 1), object)
            if isinstance(v, list):
                for i, row in enumerate(v):
                    for j, x in enumerate(row):
                        arr[i, j] = x
            else:
                arr[0, 0] = v
            if as_ranges == 'own':
                ref = nid
            else:
                r, c = arr.shape
                ref = 'Y77' if (r, c) == (1, 1) else 'Y77:%s%d' % (
                    gw.col_name(25 + c - 1), 77 + r - 1)
            v = Ranges().push(ref, arr)
        inp[nid] = v
    return inp


def to_ref_overrides(desc, X):
    ov = {}
    for kind, key, val in X:
        if kind in ('cell', 'formula-cell'):
            ov[tuple(key)] = wbrun.canon_value(val)
            continue
        node = ['rng'] + list(key) if kind == 'range' else desc['names'][key[0]]
        if node[0] == 'cell':
            ov[tuple(node[1:5])] = wbrun.canon_value(val)
        else:
            b, s, c1, r1, c2, r2 = node[1:7]
            for i, r in enumerate(range(r1, r2 + 1)):
                for j, c in enumerate(range(c1, c2 + 1)):
                    ov[(b, s, c, r)] = wbrun.canon_value(val[i][j])
    return ov


def apply_op(op, model, desc, rng, ctx):
    """Returns the model to continue with."""
    import dill
    forms = wbrun.formula_cells(desc)
    if op == 'calc':
        model.calculate()
    elif op in ('calc_same', 'compile_same'):
        # the targets of the observed calculation, overridden earlier with
        # other values (by a calculation or by a compiled function)
        def redraw(v):
            if isinstance(v, list):
                return [[rng.choice(wbrun.VALUE_POOL[:10]) for _ in row] for row in v]
            return rng.choice(wbrun.VALUE_POOL)
        X = [[x[0], x[1], redraw(x[2])] for x in _ARGS.get('X') or ()]
        if op == 'compile_same':
            X = [x for x in X if x[0] != 'formula-cell' and (
                x[0] != 'name' or desc['names'][x[1][0]][0] == 'cell')]
        inp = to_inputs(desc, X)
        if op == 'calc_same':
            model.calculate(inputs=inp)
        else:
            outs = [wbrun.node_key(desc, k) for k in rng.sample(
                forms, min(len(forms), rng.randint(1, 3)))]
            ids = [i for i in inp if i in model.dsp.nodes]
            outs = [o for o in outs if o in model.dsp.nodes and o not in ids]
            if ids and outs:
                try:
                    model.compile(ids, outs)(*[inp[i] for i in ids])
                except Exception:
                    ctx.count('history.compile-raised')
    elif op == 'calc_x':
        model.calculate(inputs=to_inputs(desc, op_args(rng, desc)))
    elif op == 'calc_o':
        outs = [wbrun.node_key(desc, k) for k in rng.sample(
            forms, min(len(forms), rng.randint(1, 3)))]
        model.calculate(outputs=[o for o in outs if o in model.dsp.nodes])
    elif op == 'compile':
        X = [x for x in op_args(rng, desc) if x[0] != 'name' or
             desc['names'][x[1][0]][0] == 'cell']
        inp = to_inputs(desc, X)
        outs = [wbrun.node_key(desc, k) for k in rng.sample(
            forms, min(len(forms), rng.randint(1, 3)))]
        ids = [i for i in inp if i in model.dsp.nodes]
        outs = [o for o in outs if o in model.dsp.nodes and o not in ids]
        if ids and outs:
            try:
                model.compile(ids, outs)(*[inp[i] for i in ids])
            except Exception:
                ctx.count('history.compile-raised')
    elif op == 'to_dict':
        model.to_dict()
    elif op == 'write':
        model.write()
    elif op == 'deepcopy':
        c = copy.deepcopy(model)
        return c if rng.random() < 0.6 else model
    elif op == 'dill':
        c = dill.loads(dill.dumps(model))
        return c if rng.random() < 0.6 else model
    return model


_ARGS = {}


def op_args(rng, desc):
    return gen_overrides(rng, desc)


def check_history(case, ctx):
    desc = case['desc']
    EvalOrder.install()
    probes.install_ranges_contracts()
    sink = probes.Sink(ctx)
    sink.case = {'kind': 'history', 'id': case.get('id')}
    probes.set_sink(sink)
    rng = random.Random('fvmon/C07/hist/%s' % case['id'])
    _ARGS['X'] = case['X']
    try:
        live = wbrun.load_dict(desc)
        fresh = wbrun.load_dict(desc)
    except Exception as ex:
        ctx.violation('load-raised:%s' % type(ex).__name__, {
            'case': case, 'observed': repr(ex)[:200], 'accepted': ['a model']})
        return
    prev = 'start'
    for op in case['history']:
        ctx.count('op.' + op)
        ctx.see('bigram', '%s>%s' % (prev, op))
        prev = op
        try:
            live = apply_op(op, live, desc, rng, ctx)
        except Exception as ex:
            ctx.violation('history-op-raised:%s:%s' % (op, type(ex).__name__), {
                'case': case, 'op': op, 'observed': '%s: %s' % (
                    type(ex).__name__, str(ex)[:150]), 'accepted': ['no exception']})
            return
    X = case['X']
    mode = case.get('as_ranges')
    inp = to_inputs(desc, X, mode)
    absent = [k for k in inp if k not in live.dsp.nodes]
    if absent:
        ctx.count('skipped.override-node-absent')
        X = [x for x in X if list(to_inputs(desc, [x]))[0] in live.dsp.nodes]
        inp = to_inputs(desc, X, mode)
        if not X:
            return
    if mode:
        ctx.count('override-values-as-Ranges.' + mode)
    kinds = '+'.join(sorted({x[0] for x in X}))
    for x in X:
        ctx.count('override.' + x[0])
    ctx.case((case['id'], case['history'], X, case['O']))
    w = {'case': case, 'overrides': to_inputs(desc, X), 'history': case['history'],
         'override_values_given_as': mode or 'plain values'}
    # (1) live vs fresh, all cells
    ids = {id(n['function']): n['outputs'] for n in live.dsp.function_nodes.values()}
    EvalOrder.ids = []
    try:
        sol_live = live.calculate(inputs=dict(inp))
        evaluated = list(EvalOrder.ids)
        sol_fresh = fresh.calculate(inputs=to_inputs(desc, X))
    except Exception as ex:
        ctx.violation('calculate-raised:%s:%s' % (type(ex).__name__, kinds), dict(
            w, observed='%s: %s' % (type(ex).__name__, str(ex)[:150]),
            accepted=['a solution']))
        return
    obs_live = wbrun.solution_cells(desc, sol_live)
    obs_fresh = wbrun.solution_cells(desc, sol_fresh)
    ctx.count('monitor.live-vs-fresh')
    diff = [k for k in obs_live if not xl.same(obs_live[k], obs_fresh.get(k, ('missing',)))]
    if diff:
        ctx.violation(('history-dependent:%s' % '>'.join(case['history'][-2:]))
                      if not mode or case['history'] else
                      'override-given-as-Ranges-differs:%s' % mode, dict(
            w, cells=[gw.key_of(desc, *k) for k in diff[:5]],
            observed=[xl.show(obs_live[k]) for k in diff[:5]],
            accepted=[[xl.show(obs_fresh[k]) for k in diff[:5]]]))
    # (2) reference with overrides as constants
    ov = to_ref_overrides(desc, X)
    ev = rw.Evaluator(desc, ov)
    ev0_cells = dict(ev.cells)
    for k, v in ov.items():
        if not ev.populated(k):
            ev.cells[k] = {'v': 0}
    obs2 = dict(obs_fresh)
    # cells reached only through a range / name override
    via_range = set()
    for x in X:
        if x[0] in ('range', 'name'):
            via_range |= set(to_ref_overrides(desc, [x]))
    # unpopulated cells are no nodes of their own: judged through dependents
    skip = {k for k in ov if k not in ev0_cells}
    # member cells holding an input-free formula (an error constant is the
    # formula =#ERR in this library): see known finding C07-range-override-...
    # ... or a formula all of whose precedents are supplied in the same call:
    # its own function is then ready as early as the range's inverse and wins.
    stale = set()
    for k in via_range:
        cell = ev0_cells.get(k) or ev0_cells.get(ev.owner.get(k))
        if cell is None:
            continue
        v = cell.get('v')
        if (isinstance(v, str) and v.startswith('#')) or ('f' in cell and all(
                p in ov or not ev.populated(p)
                for p in wbrun.refs_in(desc, cell['f']))):
            stale.add(k)
    tainted = wbrun.downstream(desc, stale) if stale else set()
    unpop = {k for k in via_range if k not in ev0_cells and k not in ev.owner}
    # the open finding is about members that have a (blank) node of their
    # own; a member that no node defines is written into the solution by the
    # range's inverse and is seen everywhere
    unpop_free = {k for k in unpop if gw.key_of(desc, *k) not in fresh.dsp.nodes}
    unpop = unpop - unpop_free
    tainted2 = wbrun.downstream(desc, unpop) if unpop else set()
    tainted3 = (wbrun.downstream(desc, unpop_free) if unpop_free else set()) - tainted2

    def annotate(key):
        if key in stale:
            grp = ev.owner.get(key, key)
            ov2 = {kk: vv for kk, vv in ov.items()
                   if kk != key and ev.owner.get(kk, kk) != grp}
            own = rw.Evaluator(desc, ov2).raw(key)
            if own == xl.BLANK:
                own = xl.c_num(0)
            # ... and with the supplied values of unpopulated members unseen
            # (the other open finding): the formula is ready before they arrive
            ov3 = {kk: vv for kk, vv in ov2.items() if kk in ev0_cells or kk in ev.owner}
            own3 = rw.Evaluator(desc, ov3).raw(key)
            if own3 == xl.BLANK:
                own3 = xl.c_num(0)
            return {'_tag': 'stale-member:', 'stale_member': True,
                    'own_value': xl.show(own) if own is not rw.UNKNOWN else 'unknown',
                    'own_value_unpopulated_members_unseen':
                        xl.show(own3) if own3 is not rw.UNKNOWN else 'unknown'}
        if key in tainted:
            return {'_tag': 'downstream-of-stale-member:',
                    'downstream_of_stale_member': sorted(
                        gw.key_of(desc, *k) for k in stale)}
        if key in tainted2:
            return {'_tag': 'downstream-of-unpopulated-member:',
                    'downstream_of_unpopulated_member': sorted(
                        gw.key_of(desc, *k) for k in unpop)[:6]}
        if key in tainted3:
            return {'_tag': 'downstream-of-nodeless-unpopulated-member:',
                    'downstream_of_nodeless_unpopulated_member': sorted(
                        gw.key_of(desc, *k) for k in unpop_free)[:6]}
        return {}
    wbrun.compare_with_reference(desc, obs2, ctx, 'reference:' + kinds, {
        'kind': 'history', 'id': case['id'], 'desc': desc, 'history': [],
        'X': X, 'O': case['O']}, ref=ev, annotate=annotate, skip=skip)
    ctx.count('monitor.reference')
    # (2b) a value supplied through a range / name for a member that no node
    # defines is part of the returned solution, like a constant would be
    inv_ranges = set()
    try:
        import schedula as sh_
        from formulas.cell import InvRangesAssembler
        for nd in fresh.dsp.function_nodes.values():
            f = nd['function']
            if isinstance(f, InvRangesAssembler) and sh_.SELF in nd['inputs']:
                inv_ranges.add(f.assembler.output)
    except Exception:
        pass
    checked = set()
    for x in X:
        # only ranges whose inverse takes the dispatcher (>= 2 members without
        # a node, >= 1 member with one) write the supplied values back
        if x[0] == 'range':
            rect = list(x[1])
        else:
            continue        # through a name the unchanged tree does not write them
        if gw.rect_key(desc, *rect) not in inv_ranges:
            continue
        b_, s_, c1, r1, c2, r2 = rect
        checked |= {(b_, s_, c, r) for c in range(c1, c2 + 1) for r in range(r1, r2 + 1)}
    checked &= unpop_free
    if checked and not mode:
        ctx.count('monitor.nodeless-member-in-solution')
        for k in sorted(checked):
            got = _cell_of(desc, sol_fresh, k)
            want = ov[k]
            if want == xl.BLANK or want == xl.c_text(''):
                continue
            if not xl.same(got, want):
                ctx.violation('supplied-member-value-not-in-solution:%s' % kinds, dict(
                    w, cell=gw.key_of(desc, *k), observed=xl.show(got),
                    accepted=[xl.show(want)]))
                break
    # (3) an overridden formula cell is not re-evaluated
    over_nodes = {gw.key_of(desc, *x[1]) for x in X if x[0] == 'formula-cell'}
    if over_nodes:
        ctx.count('monitor.not-reevaluated')
        for fid in evaluated:
            outs = ids.get(fid) or ()
            hit = over_nodes.intersection(outs)
            if hit:
                ctx.violation('overridden-formula-evaluated', dict(
                    w, cell=sorted(hit), observed='its function was evaluated',
                    accepted=['not evaluated']))
    # (4) restricting outputs changes no returned value
    O = [wbrun.node_key(desc, tuple(k)) for k in case['O']]
    O = [o for o in O if o in live.dsp.nodes and o not in inp]
    if O:
        try:
            sol_o = live.calculate(inputs=dict(inp), outputs=O)
        except Exception as ex:
            ctx.violation('calculate-outputs-raised:%s' % type(ex).__name__, dict(
                w, outputs=O, observed=repr(ex)[:150], accepted=['a solution']))
            return
        ctx.count('monitor.restricted-outputs')
        okeys = {wbrun.node_key(desc, tuple(k)): tuple(k) for k in case['O']}
        for o in O:
            a = xl.canon(xl.unwrap(sol_o[o])) if o in sol_o else ('missing',)
            b = xl.canon(xl.unwrap(sol_live[o])) if o in sol_live else ('missing',)
            if not xl.same(a, b):
                # where a range override races with a member's own producer
                # (the two open findings) the winner may differ between the
                # two calls: same mechanism, tagged for the matchers
                extra = annotate(okeys[o]) if okeys.get(o) else {}
                tag = extra.pop('_tag', '') if extra else ''
                ctx.violation('restricted-outputs-differ:%s%s' % (tag, kinds), dict(
                    w, outputs=O, cell=o, observed=xl.show(a), accepted=[xl.show(b)],
                    **extra))


def _cell_of(desc, sol, key):
    v = sol.get(gw.key_of(desc, *key))
    if v is None:
        return ('missing',)
    return xl.canon(xl.scalar(v))


def make_case(seed, i, tier):
    rng = random.Random('fvmon/C07/%s/%s' % (seed, i))
    desc = gw.gen(rng)
    if i % 5 in (0, 3):
        _sparsify(rng, desc)
    if i % 4 == 1:
        _name_and_target(rng, desc)
    if i % 3 == 2:
        _ranges_over_arrays(rng, desc)
    forms = wbrun.formula_cells(desc)
    if not forms:
        return None
    hist = [rng.choice(OPS) for _ in range(rng.randint(0, 8))]
    X = gen_overrides(rng, desc)
    if i % 5 == 3:
        # a sparse rectangle (several members that no node defines) is among
        # the overridden ranges
        ev = rw.Evaluator(desc)
        sparse = [r for r in _rect_nodes(desc)[:3] if 2 <= sum(
            1 for c in range(r[2], r[4] + 1) for rr in range(r[3], r[5] + 1)
            if not ev.populated((r[0], r[1], c, rr))) < (r[4] - r[2] + 1) * (r[5] - r[3] + 1)]
        if sparse:
            b, s, c1, r1, c2, r2 = r = rng.choice(sparse)
            cells = {(b, s, c, rr) for c in range(c1, c2 + 1) for rr in range(r1, r2 + 1)}
            keep = []
            for x in X:
                o = to_ref_overrides(desc, [x])
                if not cells & set(o):
                    keep.append(x)
            X = keep + [['range', list(r), [[rng.choice(wbrun.VALUE_POOL[:8])
                                            for _ in range(c1, c2 + 1)]
                                           for _ in range(r1, r2 + 1)]]]
    if desc.get('focus_ranges') and i % 2 == 0:
        # a rectangle that strictly contains an array formula is overridden
        b, s, c1, r1, c2, r2 = r = rng.choice(desc['focus_ranges'])
        cells = {(b, s, c, rr) for c in range(c1, c2 + 1) for rr in range(r1, r2 + 1)}
        X = [x for x in X if not cells & set(to_ref_overrides(desc, [x]))]
        X.append(['range', list(r), [[float(rng.randint(1, 90)) for _ in range(c1, c2 + 1)]
                                     for _ in range(r1, r2 + 1)]])
        hist = hist + [rng.choice(('calc_same', 'compile_same', 'calc_same'))] + \
            [rng.choice(OPS) for _ in range(rng.randint(0, 2))]
    O = [list(k) for k in rng.sample(forms, min(len(forms), rng.randint(1, 3)))]
    return {'kind': 'history', 'id': '%s/%s' % (seed, i), 'desc': desc,
            'history': hist, 'X': X, 'O': O,
            'as_ranges': (None, None, 'own', 'other')[i % 4]}


def _sparsify(rng, desc):
    """Make some referenced rectangles sparse (>= 2 unpopulated cells)."""
    for b, s, c1, r1, c2, r2 in _rect_nodes(desc)[:3]:
        cells = desc['books'][b]['sheets'][s]['cells']
        pop = [(c, r) for c in range(c1, c2 + 1) for r in range(r1, r2 + 1)
               if '%s%d' % (gw.col_name(c), r) in cells]
        for c, r in rng.sample(pop, max(0, len(pop) - 1))[:max(2, len(pop) // 2)]:
            k = '%s%d' % (gw.col_name(c), r)
            if 'v' in cells.get(k, {}):
                del cells[k]


def _name_and_target(rng, desc):
    """A formula using a name and its target in the same expression."""
    consts = wbrun.constant_cells(desc)
    if not consts:
        return
    b, s, c, r = rng.choice([k for k in consts if k[0] == 0] or consts)
    if b != 0:
        return
    desc['names']['TGT'] = ['cell', b, s, c, r]
    rc = ['rng', b, s, c, max(1, r - 1), c, r + 1]
    desc['names']['BLOCK'] = rc
    sheet = desc['books'][0]['sheets'][min(1, len(desc['books'][0]['sheets']) - 1)]
    si = desc['books'][0]['sheets'].index(sheet)
    sheet['cells']['H1'] = {'f': ['bin', '+', ['bin', '*', ['name', 'TGT'], ['lit', 10.0]],
                                  ['cell', b, s, c, r]]}
    sheet['cells']['H2'] = {'f': ['bin', '-', ['call', 'SUM', [['name', 'BLOCK']]],
                                  ['call', 'SUM', [rc]]]}
    sheet['cells']['H3'] = {'f': ['bin', '+', ['cell', 0, si, 8, 1], ['cell', 0, si, 8, 2]]}


def _ranges_over_arrays(rng, desc):
    """Formulas reading rectangles that contain array formulas and their
    neighbours (so that range nodes over multi-cell cells exist)."""
    for b, bk in enumerate(desc['books']):
        for s, sh in enumerate(bk['sheets']):
            arrs = [c['arr'] for c in sh['cells'].values() if 'arr' in c]
            taken = {(c, r) for a in arrs for c in range(a[0], a[2] + 1)
                     for r in range(a[1], a[3] + 1)}
            for n, (c1, r1, c2, r2) in enumerate(arrs[:2]):
                lo, hi = max(1, r1 - rng.randint(0, 1)), r2 + rng.randint(0, 2)
                # never cut through another array formula (Excel cannot
                # change part of an array; the property does not cover it)
                while lo < r1 and any((c, lo) in taken for c in range(c1, c2 + 1)):
                    lo += 1
                while hi > r2 and any((c, r) in taken for c in range(c1, c2 + 1)
                                      for r in range(r2 + 1, hi + 1)):
                    hi -= 1
                rect = ['rng', b, s, c1, lo, c2, hi]
                sh['cells']['%s%d' % (gw.col_name(11), 1 + 2 * n)] = {
                    'f': ['call', rng.choice(('SUM', 'MAX', 'COUNT')), [rect]]}
                sh['cells']['%s%d' % (gw.col_name(11), 2 + 2 * n)] = {
                    'f': ['bin', '+', ['call', 'SUM', [rect]], ['lit', 1.0]]}
                # readers of single members of the array formula
                sh['cells']['%s%d' % (gw.col_name(12), 1 + 2 * n)] = {
                    'f': ['bin', '+', ['cell', b, s, c1, r1], ['lit', 0.0]]}
                sh['cells']['%s%d' % (gw.col_name(12), 2 + 2 * n)] = {
                    'f': ['bin', '*', ['cell', b, s, c1, r2], ['lit', 2.0]]}
                desc.setdefault('focus_ranges', []).append(rect[1:])


# -- circular workbooks: an override must equal the constant twin --------------------

def make_circ_case(seed, i):
    rng = random.Random('fvmon/C07/circ/%s/%s' % (seed, i))
    n = rng.randint(3, 6)
    depth = rng.randint(2, 7)
    d = {'K1': float(rng.randint(1, 5))}
    for j in range(2, depth + 1):
        d['K%d' % j] = '=K%d+1' % (j - 1)
    cells = ['A%d' % j for j in range(1, n + 1)]
    k = rng.randint(2, n)                    # A1 -> A2 -> ... -> Ak -> A1
    for j, c in enumerate(cells):
        terms = ['%d' % rng.randint(0, 5)]
        if j < k:
            terms.append(cells[(j + 1) % k])
        terms += [o for o in cells if o != c and rng.random() < 0.15]
        if rng.random() < 0.5:
            terms.append('K%d' % depth)
        d[c] = '=' + '+'.join(terms)
    d['D1'] = '=%s*2' % rng.choice(cells)
    d['D2'] = '=IFERROR(%s,-1)' % rng.choice(cells)
    d['D3'] = '=K%d+%s' % (depth, rng.choice(cells))
    X = {c: float(rng.randint(-3, 9)) for c in rng.sample(cells[:k], rng.randint(1, 2))}
    if rng.random() < 0.3:
        X['K1'] = float(rng.randint(6, 9))
    return {'kind': 'circ', 'id': 'circ/%s/%s' % (seed, i), 'cells': d, 'X': X,
            'history': [rng.choice(('calc', 'calc_x', 'none')) for _ in range(2)]}


def check_circ(case, ctx):
    """calculate(inputs=X) on a model with circular references == the same
    workbook where the cells of X are constants (both finished alike)."""
    import formulas
    d, X = case['cells'], case['X']
    try:
        m = formulas.ExcelModel().from_dict(dict(d)).finish(circular=True)
        for op in case['history']:
            if op == 'calc':
                m.calculate()
            elif op == 'calc_x':
                m.calculate(inputs={k: 99.0 for k in X})
        sol = m.calculate(inputs=dict(X))
        twin = formulas.ExcelModel().from_dict(dict(d, **X)).finish(circular=True)
        ref = twin.calculate()
    except Exception as ex:
        ctx.violation('circular:raised:%s' % type(ex).__name__, {
            'case': case, 'observed': '%s: %s' % (type(ex).__name__, str(ex)[:150]),
            'accepted': ['a solution']})
        return
    ctx.case((case['id'], sorted(X.items())))
    ctx.count('monitor.circular-twin')
    got = {k: xl.canon(xl.scalar(sol[k])) if k in sol else ('missing',) for k in d}
    want = {k: xl.canon(xl.scalar(ref[k])) if k in ref else ('missing',) for k in d}
    diff = sorted(k for k in d if not xl.same(got[k], want[k], rel=1e-12))
    if diff:
        k = diff[0]
        ctx.violation('circular-override-differs-from-constant-twin:%s->%s' % (
            wbrun._cls(got[k]), wbrun._cls(want[k])), {
            'case': case, 'overrides': X, 'cells': [d[x] for x in diff[:4]],
            'cell': k, 'n_cells': len(diff), 'observed': xl.show(got[k]),
            'accepted': [xl.show(want[k]) + ' (same workbook with the overridden '
                                            'cells written as constants)']})


# -- names that stand for other names -----------------------------------------------

def make_alias_case(seed, i):
    """A chain of defined names N0 = <cell or range>, N1 = N0, N2 = N1 ...; the
    dictionary lists its entries in a random order."""
    rng = random.Random('fvmon/C07/alias/%s/%s' % (seed, i))
    S, N = "'[book.xlsx]S'!%s", "'[book.xlsx]'!%s"
    n = rng.randint(2, 4)
    vals = [float(rng.randint(1, 9)) for _ in range(n)]
    is_rng = i % 3 != 0
    t_row = rng.randint(1, n)
    target = S % ('$A$1:$A$%d' % n if is_rng else '$A$%d' % t_row)
    chain = rng.sample(['ZED', 'AL', 'Rate_2', 'k', 'Mid.Name', 'Q_1'], rng.randint(2, 4))
    items = [(S % ('A%d' % (r + 1)), vals[r]) for r in range(n)]
    items.append((N % chain[0].upper(), '=' + target))
    for a, b in zip(chain[1:], chain):
        items.append((N % a.upper(), '=' + N % b.upper()))
    last = N % chain[-1].upper()
    items += [(S % 'B1', '=SUM(%s)' % (S % ('A1:A%d' % n))),
              (S % 'B2', '=%s*2' % (S % ('A%d' % t_row))),
              (S % 'B3', '=SUM(%s)' % last),
              (S % 'B4', '=SUM(%s,%s)' % (N % chain[0].upper(), S % 'A1'))]
    rng.shuffle(items)
    new = [rng.choice((10.0, 20.5, -3.0, 100.0, 0.0)) for _ in range(n)]
    return {'kind': 'alias', 'id': '%s/%s' % (seed, i), 'items': [list(x) for x in items],
            'two_step': i % 4 == 3,
            'names': [N % c.upper() for c in chain], 'is_rng': is_rng, 'row': t_row,
            'n': n, 'new': new, 'outputs': [S % ('B%d' % k) for k in (1, 2, 3, 4)]}


def check_alias(case, ctx):
    import formulas
    S = "'[book.xlsx]S'!%s"
    n, new = case['n'], case['new']
    try:
        if case.get('two_step'):
            # the constants first, the names and formulas in a second import
            first = {k: v for k, v in case['items'] if not isinstance(v, str)}
            rest = {k: v for k, v in case['items'] if isinstance(v, str)}
            m = formulas.ExcelModel().from_dict(first)
            m.from_dict(rest).finish()
            ctx.count('monitor.alias-two-step')
        else:
            m = formulas.ExcelModel().from_dict(dict(map(tuple, case['items']))).finish()
        twin_items = dict(map(tuple, case['items']))
        for r in range(n):
            if case['is_rng'] or r + 1 == case['row']:
                twin_items[S % ('A%d' % (r + 1))] = new[r]
        twin = formulas.ExcelModel().from_dict(twin_items).finish().calculate()
    except Exception as ex:
        ctx.violation('alias:load-raised:%s' % type(ex).__name__, {
            'case': case, 'observed': '%s: %s' % (type(ex).__name__, str(ex)[:150]),
            'accepted': ['a model']})
        return
    want = {o: xl.canon(xl.scalar(twin[o])) for o in case['outputs']}
    value = [[v] for v in new] if case['is_rng'] else new[case['row'] - 1]
    ctx.case((case['id'],))
    for depth, name in enumerate(case['names']):
        ctx.count('monitor.alias-override')
        try:
            sol = m.calculate({name: value})
            got = {o: xl.canon(xl.scalar(sol[o])) if o in sol else ('missing',)
                   for o in case['outputs']}
        except Exception as ex:
            ctx.violation('alias:calculate-raised:%s' % type(ex).__name__, {
                'case': case, 'through': name, 'observed': repr(ex)[:150],
                'accepted': ['a solution']})
            continue
        bad = [o for o in case['outputs'] if not xl.same(got[o], want[o], rel=1e-12)]
        if bad:
            ctx.violation('alias:override-through-name-differs:%s:depth%d' % (
                'range' if case['is_rng'] else 'cell', depth), {
                'case': case, 'through': name, 'value': value, 'cell': bad[0],
                'dictionary_order': [k for k, _ in case['items']],
                'observed': xl.show(got[bad[0]]),
                'accepted': [xl.show(want[bad[0]]) +
                             ' (the same workbook with the cells holding these values)']})


# -- overriding a formula-valued defined name -------------------------------------------

def make_valname_case(seed, i):
    rng = random.Random('fvmon/C07/valname/%s/%s' % (seed, i))
    for _ in range(40):
        desc = gw.gen(rng)
        names = sorted(n for n, node in desc['names'].items()
                       if node[0] == 'val' and node[2][0] != 'lit')
        if names:
            break
    else:
        return None
    nm = rng.choice(names)
    b = desc['names'][nm][1]
    # make sure some formulas read the name
    sh_ = desc['books'][b]['sheets'][-1]['cells']
    sh_['M13'] = {'f': ['bin', '+', ['name', nm], ['lit', 1.0]]}
    sh_['M14'] = {'f': ['call', 'SUM', [['name', nm], ['lit', 2.0]]]}
    v = rng.choice((5.0, 100.0, -3.0, 0.0, 12.5))
    return {'kind': 'valname', 'id': '%s/%s' % (seed, i), 'desc': desc, 'name': nm,
            'value': v}


def check_valname(case, ctx):
    import copy as _copy
    desc, nm, v = case['desc'], case['name'], case['value']
    twin = _copy.deepcopy(desc)
    twin['names'][nm] = ['val', desc['names'][nm][1], ['lit', v]]
    try:
        m = wbrun.load_dict(desc)
        t = wbrun.load_dict(twin)
        sol = m.calculate(inputs={_name_id(desc, nm): v})
        want = wbrun.solution_cells(twin, t.calculate())
    except Exception as ex:
        ctx.count('valname.raised')
        ctx.see('valname-raised', '%s: %s' % (type(ex).__name__, str(ex)[:80]))
        return
    got = wbrun.solution_cells(desc, sol)
    ctx.case(('valname', case['id']))
    ctx.count('monitor.valname-override')
    bad = [k for k in want if not xl.same(got.get(k, ('missing',)), want[k], rel=1e-12)]
    if bad:
        k = bad[0]
        down = wbrun.downstream(desc, [])  # noqa
        ctx.violation('valname:override-differs-from-constant-twin:%s' % wbrun._cls(
            got.get(k, ('missing',))), {
            'case': case, 'name': nm, 'definition': gw.formula_text(
                desc, desc['names'][nm][2], (desc['names'][nm][1], -1)),
            'supplied': v, 'cell': gw.key_of(desc, *k), 'n_cells': len(bad),
            'observed': xl.show(got.get(k, ('missing',))),
            'accepted': [xl.show(want[k]) + ' (the workbook in which the name is the '
                                            'constant %r)' % v]})


def plan(tier, seed):
    n = 160 if tier == 'quick' else 3000
    per = 10 if tier == 'quick' else 60
    specs = [{'kind': 'histories', 'lo': lo, 'hi': min(n, lo + per), 'timeout': 1500}
             for lo in range(0, n, per)]
    nc = 400 if tier == 'quick' else 6000
    specs += [{'kind': 'circular', 'lo': lo, 'hi': lo + 100} for lo in range(0, nc, 100)]
    na = 200 if tier == 'quick' else 3000
    specs += [{'kind': 'alias', 'lo': lo, 'hi': lo + 100} for lo in range(0, na, 100)]
    nv = 60 if tier == 'quick' else 900
    specs += [{'kind': 'valname', 'lo': lo, 'hi': lo + 30} for lo in range(0, nv, 30)]
    return specs


def check_case(case, ctx):
    if case['kind'] == 'circ':
        check_circ(case, ctx)
    elif case['kind'] == 'alias':
        check_alias(case, ctx)
    elif case['kind'] == 'valname':
        check_valname(case, ctx)
    else:
        check_history(case, ctx)


def run(spec, ctx):
    case = None
    if spec['kind'] == 'circular':
        for i in range(spec['lo'], spec['hi']):
            case = make_circ_case(spec['seed'], i)
            check_circ(case, ctx)
        ctx.sample({'cells': case['cells'], 'overrides': case['X']})
        return
    if spec['kind'] == 'valname':
        for i in range(spec['lo'], spec['hi']):
            case = make_valname_case(spec['seed'], i)
            if case is None:
                continue
            ctx.open_case({'kind': 'valname', 'id': case['id']})
            check_valname(case, ctx)
        if case:
            ctx.sample({'formula_valued_name': case['name'], 'supplied': case['value']})
        return
    if spec['kind'] == 'alias':
        for i in range(spec['lo'], spec['hi']):
            case = make_alias_case(spec['seed'], i)
            ctx.open_case({'kind': 'alias', 'id': case['id']})
            check_alias(case, ctx)
        ctx.sample({'alias_chain': case['names'], 'order': [k for k, _ in case['items']]})
        return
    for i in range(spec['lo'], spec['hi']):
        c = make_case(spec['seed'], i, spec['tier'])
        if c is None:
            continue
        case = c
        ctx.open_case({'kind': 'history', 'id': case['id'],
                       'history': case['history']})
        check_history(case, ctx)
    if case:
        ctx.sample({'history': case['history'], 'overrides': to_inputs(case['desc'], case['X']),
                    'outputs': case['O']})


def finalize(agg, tier):
    c, inc = agg['counters'], []
    for k, floor in (('monitor.live-vs-fresh', 100), ('monitor.reference', 100),
                     ('monitor.restricted-outputs', 80), ('override.cell', 40),
                     ('override.formula-cell', 15), ('override.range', 15),
                     ('override.name', 10), ('monitor.not-reevaluated', 10),
                     ('contract.value.cache', 100), ('monitor.circular-twin', 300),
                     ('override-values-as-Ranges.own', 20),
                     ('override-values-as-Ranges.other', 20),
                     ('monitor.nodeless-member-in-solution', 8),
                     ('monitor.alias-override', 400),
                     ('monitor.valname-override', 40)):
        if c.get(k, 0) < floor:
            inc.append('monitor %s saw %d events (< %d)' % (k, c.get(k, 0), floor))
    return {'inconclusive': inc, 'coverage': {
        'operation_bigrams': len(agg['sets'].get('bigram', ()))}}
