"""C08 - compiled functions agree with interpretation for every argument.

Online differential monitor: every call of a function compiled from a
workbook is shadowed by calculate(inputs=..., outputs=...) on the same model
and by the reference evaluation with the inputs as constants; every function
compiled from a single formula is compared with the same formula with the
arguments written in as literals (argument order = list(func.inputs)).
"""
import random

from .. import xl, wbrun
from ..gen import workbooks as gw, formulas as gf
from ..ref import workbook as rw, grammar as rg

ID = 'C08'
LEVEL = 'exploration'
RULE = ('workbook cases: (description, input node list, output node list, '
        'argument tuple) with inputs drawn from constant cells, formula cells, '
        'plain-reference names and range nodes, outputs from formula cells and '
        'array-formula ranges, arguments of every kind chosen to differ from '
        'the stored values; formula cases: (random tree with references, '
        'argument tuple); distinct = distinct (description, I, O, arguments) / '
        '(formula text, arguments); non-trivial = the compiled function was '
        'called and compared with the interpreted path')
ASSUMPTIONS = [
    'workbooks contain no volatile functions here (C13 covers them)',
    'the reference with inputs as constants is judged only where its value is '
    'certain; the compiled-vs-interpreted comparison is always judged',
]


def _args_for(rng, desc, in_keys, kinds):
    vals = []
    for key, kind in zip(in_keys, kinds):
        if kind == 'name' and desc['names'][key[0]][0] == 'rng':
            kind, key = 'range', tuple(desc['names'][key[0]][1:7])
        if kind == 'range':
            c1, r1, c2, r2 = key[2:]
            vals.append([[rng.choice(wbrun.VALUE_POOL[:10])
                          for _ in range(c1, c2 + 1)] for _ in range(r1, r2 + 1)])
        else:
            vals.append(rng.choice(wbrun.VALUE_POOL))
    return vals


def _lib_arg(v):
    if isinstance(v, list):
        return [[wbrun.py_value(x) for x in row] for row in v]
    return wbrun.py_value(v)


def published_stale(m, func, desc, I, args, ctx=None):
    """-> (node id, published value, supplied value) of the first member of a
    range input that no node defines and whose value in the solution the
    function reads blanks from is not the one supplied in this call; None if
    all are current.  Only ranges whose inverse runs inside the function."""
    sol_ = getattr(m.dsp, 'solution', None) or {}
    inv_ = set()
    try:
        import schedula as sh_
        from formulas.cell import InvRangesAssembler
        for nd in func.dsp.function_nodes.values():
            f_ = nd['function']
            if isinstance(f_, InvRangesAssembler) and sh_.SELF in nd['inputs']:
                inv_.add(f_.assembler.output)
    except Exception:
        return None
    for (kind, key), a in zip(I, args):
        if kind != 'range' or not isinstance(a, list):
            continue
        if gw.rect_key(desc, *key) not in inv_:
            continue    # the function does not run the inverse of this range
        b_, s_, c1, r1, c2, r2 = key
        for ri, r in enumerate(range(r1, r2 + 1)):
            for ci, c in enumerate(range(c1, c2 + 1)):
                nid = gw.key_of(desc, b_, s_, c, r)
                if nid in m.dsp.nodes or nid not in sol_:
                    continue
                if ctx is not None:
                    ctx.count('monitor.published-member-current')
                try:
                    pub = xl.canon(xl.scalar(sol_[nid]))
                except Exception:
                    continue
                sup = wbrun.canon_value(a[ri][ci])
                if sup in (xl.BLANK, xl.c_text('')):
                    continue
                if not xl.same(pub, sup):
                    return nid, pub, sup
    return None



def check_model_case(case, ctx):
    """case: desc, I: [[kind, key...]], O: [cell keys], args: [tuples]"""
    desc = case['desc']
    try:
        if case.get('path') == 'xlsx':
            from .. import worker
            import os
            m, _ = wbrun.load_xlsx(desc, os.path.join(worker.scratch_dir(), 'c8'))
        else:
            m = wbrun.load_dict(desc)
        m.calculate()
    except Exception as ex:
        ctx.violation('load-raised:%s' % type(ex).__name__, {
            'case': case, 'observed': repr(ex)[:200], 'accepted': ['a model']})
        return
    in_ids, in_cells = [], []
    for kind, key in case['I']:
        key = tuple(key)
        if kind == 'range':
            in_ids.append(gw.rect_key(desc, *key))
        elif kind == 'name':
            in_ids.append("'[%s]'!%s" % (
                desc['books'][desc['names'][key[0]][1]]['name'], key[0].upper()))
        else:
            in_ids.append(gw.key_of(desc, *key))
    out_keys = [tuple(k) for k in case['O']]
    out_ids = [wbrun.node_key(desc, k) for k in out_keys]
    missing = [n for n in in_ids + out_ids if n not in m.dsp.nodes]
    if missing:
        ctx.count('skipped.node-absent')
        return
    try:
        func = m.compile(in_ids, out_ids)
    except Exception as ex:
        ctx.violation('compile-raised:%s' % type(ex).__name__, {
            'case': case, 'inputs': in_ids, 'outputs': out_ids,
            'observed': '%s: %s' % (type(ex).__name__, str(ex)[:150]),
            'accepted': ['a function']})
        return
    frozen = len(getattr(func.dsp, 'default_values', {}))
    frozen_none = _frozen_none(func)
    ctx.count('compiled')
    if frozen:
        ctx.count('compiled.with-frozen-values')
    for n_call, args in enumerate(case['args']):
        lib_args = [_lib_arg(a) for a in args]
        if n_call % 2 and case.get('disturb'):
            # the model keeps working between two calls of the function: a
            # calculation with other populated cells overridden
            try:
                m.calculate(inputs={gw.key_of(desc, *k): wbrun.py_value(v)
                                    for k, v in case['disturb'][n_call // 2 % len(
                                        case['disturb'])]})
                ctx.count('monitor.model-calculated-between-calls')
            except Exception:
                ctx.count('disturbance-raised')
        ctx.case((wbrun.digest({}), in_ids, out_ids, args, case.get('id')))
        w = {'case': dict(case, args=[args]), 'inputs': in_ids,
             'outputs': out_ids, 'arguments': args,
             'frozen_values_holding_NONE': frozen_none}
        if n_call % 3 == 2:
            # two calls in a row, no model calculation in between: the first
            # one (other arguments) must leave nothing behind
            try:
                func(*[_lib_arg(a) for a in case['args'][n_call - 1]])
                ctx.count('monitor.back-to-back-calls')
            except Exception:
                pass
        try:
            res = func(*lib_args)
            got = wbrun.observed_outputs(desc, res, out_keys, out_ids)
        except Exception as ex:
            got = None
            exc = ex
        if got is not None:
            # where the inverse of a range input published the values of members
            # that no node defines (into the solution the function reads blanks
            # from), they must be those of *this* call
            stale = published_stale(m, func, desc, case['I'], args, ctx)
            if stale:
                nid, pub, sup = stale
                ctx.violation('stale-published-member:%s' % wbrun._cls(pub), dict(
                    w, cell=nid, call_number=n_call, observed=xl.show(pub),
                    accepted=[xl.show(sup) + ' (the value supplied in this call)']))
        try:
            sol = m.calculate(inputs=dict(zip(in_ids, lib_args)), outputs=out_ids)
            want = wbrun.observed_outputs(desc, sol, out_keys, out_ids)
        except Exception as ex:
            ctx.count('interpreted-raised')
            want = None
        if got is None:
            if want is not None:
                ctx.violation('call-raised:%s' % type(exc).__name__, dict(
                    w, observed='%s: %s' % (type(exc).__name__, str(exc)[:150]),
                    accepted=['values of calculate(inputs, outputs)']))
            continue
        if want is None:
            continue
        ctx.count('monitor.compiled-vs-interpreted')
        for k in out_keys:
            if not xl.same(got[k], want[k], rel=1e-12):
                ctx.violation('differs:%s->%s:%s' % (
                    wbrun._cls(got[k]), wbrun._cls(want[k]),
                    '+'.join(sorted({i[0] for i in case['I']}))), dict(
                    w, cell=gw.key_of(desc, *k), observed=xl.show(got[k]),
                    accepted=[xl.show(want[k])]))
        if n_call == 0:
            _check_permuted(case, ctx, m, desc, in_ids, out_ids, out_keys)
        # reference with the inputs as constants
        ov = {}
        ok = True
        for (kind, key), a in zip(case['I'], args):
            key = tuple(key)
            if kind == 'cell':
                ov[key] = wbrun.canon_value(a)
            elif kind == 'range':
                ok = False   # range inputs == underlying cells is C07's clause
            else:
                node = desc['names'][key[0]]
                if node[0] != 'cell':
                    ok = False
                else:
                    tgt = desc['books'][node[1]]['sheets'][node[2]]['cells'].get(
                        '%s%d' % (gw.col_name(node[3]), node[4])) or {}
                    if 'f' in tgt or str(tgt.get('v', '')).startswith('#') or not tgt:
                        # a name over a cell with a formula of its own (error
                        # constants are formulas here) or over an unpopulated
                        # cell: the open C07 findings own those clauses
                        ok = False
                    ov[tuple(node[1:5])] = wbrun.canon_value(a)
        if ok:
            ev = rw.Evaluator(desc, ov)
            for k in out_keys:
                cell = ev.cells.get(k) or {}
                if 'arr' in cell:
                    continue
                try:
                    r = ev.raw(k)
                except RecursionError:
                    continue
                if r is rw.UNKNOWN:
                    ctx.count('ref.unknown')
                    continue
                ctx.count('monitor.compiled-vs-reference')
                if r == xl.BLANK:
                    r = xl.c_num(0)
                if not xl.same(got[k], r, rel=1e-9):
                    ctx.violation('reference-differs:%s->%s' % (
                        wbrun._cls(got[k]), wbrun._cls(r)), dict(
                        w, cell=gw.key_of(desc, *k), observed=xl.show(got[k]),
                        accepted=[xl.show(r)]))


def _check_permuted(case, ctx, m, desc, in_ids, out_ids, out_keys):
    """The same cells compiled again with the node lists in another order."""
    if len(in_ids) < 2 and len(out_ids) < 2:
        return
    args = case['args'][0]
    lib_args = [_lib_arg(a) for a in args]
    try:
        f2 = m.compile(in_ids[::-1], out_ids[::-1])
        res = f2(*lib_args[::-1])
        got = wbrun.observed_outputs(desc, res, out_keys[::-1], out_ids[::-1])
        sol = m.calculate(inputs=dict(zip(in_ids, lib_args)), outputs=out_ids)
        want = wbrun.observed_outputs(desc, sol, out_keys, out_ids)
    except Exception as ex:
        ctx.count('permuted-raised')
        return
    ctx.count('monitor.permuted-recompile')
    for k in out_keys:
        if not xl.same(got[k], want[k], rel=1e-12):
            ctx.violation('differs:permuted-recompile:%s->%s' % (
                wbrun._cls(got[k]), wbrun._cls(want[k])), {
                'case': dict(case, args=[args]), 'inputs': in_ids[::-1],
                'outputs': out_ids[::-1], 'arguments': args[::-1],
                'cell': gw.key_of(desc, *k), 'observed': xl.show(got[k]),
                'accepted': [xl.show(want[k])]})
            return


def _frozen_none(func):
    """Diagnostic: pre-computed values of the compiled function that contain
    schedula's NONE token (a value that was never computed)."""
    import numpy as np
    import schedula as sh
    out = []
    for k, d in getattr(func.dsp, 'default_values', {}).items():
        v = d.get('value')
        v = getattr(v, 'value', v) if not isinstance(v, np.ndarray) else v
        if isinstance(v, np.ndarray) and v.dtype == object:
            if any(x is sh.NONE for x in v.ravel().tolist()):
                out.append(str(k))
    return sorted(out)


def make_model_case(seed, i):
    rng = random.Random('fvmon/C08/%s/%s' % (seed, i))
    desc = gw.gen(rng)
    if i % 3 == 0:
        from .c07 import _sparsify
        _sparsify(rng, desc)      # rectangles with several unpopulated cells
    consts = wbrun.constant_cells(desc)
    forms = wbrun.formula_cells(desc)
    arrs = [k for k in wbrun.formula_cells(desc, True) if k not in forms]
    if not forms or not consts:
        return None
    cases = []
    # unpopulated cells that formulas read directly and that also lie inside
    # a rectangle some formula reads
    ev = rw.Evaluator(desc)
    direct = set()
    def walk(t):
        if not isinstance(t, list) or not t:
            return
        if t[0] == 'cell':
            direct.add(tuple(t[1:5]))
        elif t[0] == 'name' and desc['names'][t[1]][0] == 'cell':
            direct.add(tuple(desc['names'][t[1]][1:5]))
        elif t[0] == 'bin':
            walk(t[2]), walk(t[3])
        elif t[0] in ('un', 'pct'):
            walk(t[-1])
        elif t[0] == 'call':
            for a in t[2]:
                walk(a)
    for k in forms:
        walk(ev.cells[k]['f'])
    blanks = sorted(
        (b, s, c, r) for b, s, c1, r1, c2, r2 in _rect_nodes(desc)
        for c in range(c1, c2 + 1) for r in range(r1, r2 + 1)
        if (b, s, c, r) in direct and not ev.populated((b, s, c, r)))
    for j in range(3):
        I = []
        for _ in range(rng.randint(1, 4)):
            t = rng.random()
            if blanks and t < 0.15:
                I.append(['cell', list(rng.choice(blanks))])
            elif t < 0.6:
                I.append(['cell', list(rng.choice(consts))])
            elif t < 0.75 and len(forms) > 2:
                I.append(['cell', list(rng.choice(forms[:len(forms) // 2 + 1]))])
            elif t < 0.85:
                names = [n for n, node in desc['names'].items() if node[0] == 'cell' or (
                    node[0] == 'rng' and
                    (node[4] - node[2] + 1) * (node[6] - node[3] + 1) <= 16)]
                if names:
                    I.append(['name', [rng.choice(sorted(names))]])
            else:
                rects = _rect_nodes(desc)
                if rects:
                    I.append(['range', list(rng.choice(rects))])
        rnames = sorted(n for n, node in desc['names'].items() if node[0] == 'rng' and
                        (node[4] - node[2] + 1) * (node[6] - node[3] + 1) <= 16)
        forced = None
        if j == 1 and rnames:
            # a rectangle-valued name is the input; its member cells are read
            # directly by some outputs
            forced = rng.choice(rnames)
            I = [['name', [forced]]] + [x for x in I if x[0] == 'cell'][:1]
        sparse_in = None
        if j == 2 and i % 3 == 0:
            # a sparse rectangle is the input; outputs read its unpopulated
            # members through other rectangles (assembled at call time)
            sp = [r for r in _rect_nodes(desc) if 2 <= sum(
                1 for c in range(r[2], r[4] + 1) for rr in range(r[3], r[5] + 1)
                if not ev.populated((r[0], r[1], c, rr))) and (
                r[4] - r[2] + 1) * (r[5] - r[3] + 1) <= 16]
            if sp:
                sparse_in = rng.choice(sp)
                forced = None
                I = [['range', list(sparse_in)]]
        targets = set()
        for x in I:
            if x[0] == 'name':
                node = desc['names'][x[1][0]]
                if node[0] == 'cell':
                    targets.add(tuple(node[1:5]))
                else:
                    b_, s_, c1, r1, c2, r2 = node[1:7]
                    targets |= {(b_, s_, c, r) for c in range(c1, c2 + 1)
                                for r in range(r1, r2 + 1)}
        I = [x for x in I if not (x[0] == 'cell' and tuple(x[1]) in targets)]
        # a range input must not overlap a rectangle-valued name among the inputs
        I = [x for x in I if not (x[0] == 'range' and targets & {
            (x[1][0], x[1][1], c, r) for c in range(x[1][2], x[1][4] + 1)
            for r in range(x[1][3], x[1][5] + 1)})]
        if sum(1 for x in I if x[0] == 'name' and
               desc['names'][x[1][0]][0] == 'rng') > 1:
            continue
        seen, I2 = set(), []
        for x in I:
            k = (x[0], tuple(x[1]))
            if k not in seen:
                seen.add(k)
                I2.append(x)
        I = I2
        if not I:
            continue
        O = [list(k) for k in rng.sample(forms, min(len(forms), rng.randint(1, 4)))]
        if arrs and rng.random() < 0.4:
            O.append(list(rng.choice(arrs)))
        if sparse_in:
            b_, s_, c1, r1, c2, r2 = sparse_in
            un = [(b_, s_, c, r) for c in range(c1, c2 + 1) for r in range(r1, r2 + 1)
                  if not ev.populated((b_, s_, c, r))]
            down = wbrun.downstream(desc, un)
            dn = [list(k) for k in forms if k in down and list(k) not in O]
            O += rng.sample(dn, min(len(dn), 4))
        if forced:
            down = wbrun.downstream(desc, sorted(targets))
            dn = [list(k) for k in forms if k in down and list(k) not in O]
            O += rng.sample(dn, min(len(dn), 3))
        O = [o for o in O if ['cell', o] not in I]
        if not O:
            continue
        kinds = [x[0] for x in I]
        keys = [tuple(x[1]) for x in I]
        args = [_args_for(rng, desc, keys, kinds) for _ in range(6)]
        covered = set()
        for x in I:
            if x[0] == 'cell':
                covered.add(tuple(x[1]))
            elif x[0] == 'range':
                b_, s_, c1, r1, c2, r2 = x[1]
                covered |= {(b_, s_, c, r) for c in range(c1, c2 + 1)
                            for r in range(r1, r2 + 1)}
            elif desc['names'][x[1][0]][0] == 'cell':
                covered.add(tuple(desc['names'][x[1][0]][1:5]))
            else:
                b_, s_, c1, r1, c2, r2 = desc['names'][x[1][0]][1:7]
                covered |= {(b_, s_, c, r) for c in range(c1, c2 + 1)
                            for r in range(r1, r2 + 1)}
        others = [k for k in consts if k not in covered]
        disturb = [[[list(k), rng.choice((100.0, -7.0, 55.5, 'txt', True))]
                    for k in rng.sample(others, min(len(others), rng.randint(1, 3)))]
                   for _ in range(3)] if others else []
        cases.append({'kind': 'model', 'id': '%s/%s' % (i, j), 'desc': desc,
                      'I': I, 'O': O, 'args': args, 'disturb': disturb,
                      'path': 'xlsx' if (i % 7 == 0 and j == 0) else 'dict'})
    return cases


def _rect_nodes(desc):
    """Rectangles used by some formula (they are nodes of the model)."""
    out = []

    def walk(t):
        if not isinstance(t, list) or not t:
            return
        if t[0] == 'rng' and (t[5] - t[3] + 1) * (t[6] - t[4] + 1) <= 12 and \
                (t[3], t[4]) != (t[5], t[6]):
            out.append(tuple(t[1:7]))
        elif t[0] == 'call':
            for a in t[2]:
                walk(a)
        elif t[0] == 'bin':
            walk(t[2])
            walk(t[3])
    for b, s, addr, cell in gw.iter_cells(desc):
        if 'f' in cell:
            walk(cell['f'])
    return sorted(set(out))


# -- single formulas -----------------------------------------------------------

LIT_POOL = [2.0, 3.0, 5.0, 0.0, -1.5, 7.0, 'a', 'x y', '', True, False, 12.0]


def _subst(t, env):
    k = t[0]
    if k == 'ref':
        v = env[t[1].upper()]
        if isinstance(v, bool):
            return ['bool', v]
        if isinstance(v, str):
            return ['str', v]
        if v < 0:
            return ['un', '-', ['num', repr(-v)]]
        return ['num', repr(v)]
    if k == 'bin':
        return ['bin', t[1], _subst(t[2], env), _subst(t[3], env)]
    if k == 'un':
        return ['un', t[1], _subst(t[2], env)]
    if k == 'pct':
        return ['pct', _subst(t[1], env)]
    if k == 'call':
        return ['call', t[1], [_subst(a, env) for a in t[2]]]
    return t


def check_formula_case(case, ctx):
    import formulas
    P = formulas.Parser()
    t, args_list = case['tree'], case['args']
    text = gf.Speller(random.Random(0)).spell(t)
    try:
        fn = P.ast(text)[1].compile()
        order = [k.upper() for k in fn.inputs]
    except Exception as ex:
        ctx.count('formula.compile-raised')
        return
    refs = gf.refs_of(t)
    if sorted(order) != sorted(refs):
        ctx.violation('formula:inputs-mapping', {
            'case': case, 'formula': text, 'observed': order,
            'accepted': [sorted(refs)]})
        return
    for env in args_list:
        ctx.case((text, sorted(env.items())))
        w = {'case': dict(case, args=[env]), 'formula': text, 'arguments': env}
        try:
            got = xl.canon(xl.scalar(fn(*[env[k] for k in order])))
        except Exception as ex:
            got = ('foreign', 'raised ' + type(ex).__name__)
        lit = gf.Speller(random.Random(0)).spell(_subst(t, env))
        try:
            want = xl.canon(xl.scalar(P.ast(lit)[1].compile()()))
        except Exception as ex:
            ctx.count('formula.literal-raised')
            continue
        ctx.count('monitor.formula-vs-literals')
        if not xl.same(got, want, rel=1e-12):
            ctx.violation('formula:differs:%s->%s' % (
                wbrun._cls(got), wbrun._cls(want)), dict(
                w, literal_formula=lit, observed=xl.show(got),
                accepted=[xl.show(want)]))


# -- constants stored on multi-cell references (dictionaries only) --------------------

def make_multiconst_case(seed, i):
    rng = random.Random('fvmon/C08/mc/%s/%s' % (seed, i))
    n = rng.randint(4, 7)                      # column A, rows 1..n
    r1 = rng.randint(1, n - 1)
    r2 = min(n, r1 + rng.randint(1, 2))
    d = {'A%d:A%d' % (r1, r2): float(rng.randint(2, 9))}
    for r in range(1, n + 1):
        if not r1 <= r <= r2 and rng.random() < 0.85:
            d['A%d' % r] = float(rng.randint(1, 9))
    d['B1'] = '=SUM(A1:A%d)' % n
    d['B2'] = '=SUM(A%d:A%d)*2' % (r1, r2)                 # reads the node itself
    d['B3'] = '=A%d+10' % rng.randint(r1, r2)               # reads one member
    d['B4'] = '=SUM(A1:A%d)-SUM(A%d:A%d)' % (n, r1, r2)
    d['B5'] = '=B3*2+B2'
    lo, hi = rng.randint(1, r1), rng.randint(r2, n)
    inputs = ['A%d:A%d' % (lo, hi)]
    if rng.random() < 0.4:
        free = [r for r in range(1, n + 1) if not lo <= r <= hi and 'A%d' % r in d]
        if free:
            inputs.append('A%d' % rng.choice(free))
    outputs = rng.sample(['B1', 'B2', 'B3', 'B4', 'B5'], rng.randint(2, 5))
    args = []
    for _ in range(4):
        a = [[[float(rng.randint(-5, 40))] for _ in range(lo, hi + 1)]]
        a += [float(rng.randint(-5, 40)) for _ in inputs[1:]]
        args.append(a)
    return {'kind': 'multiconst', 'id': i, 'cells': d, 'inputs': inputs,
            'outputs': outputs, 'args': args}


def check_multiconst_case(case, ctx):
    import formulas
    d, ins, outs = case['cells'], case['inputs'], case['outputs']
    try:
        m = formulas.ExcelModel().from_dict(dict(d))
        m.calculate()
        func = m.compile(ins, outs)
    except Exception as ex:
        ctx.violation('multiconst:compile-raised:%s' % type(ex).__name__, {
            'case': case, 'observed': '%s: %s' % (type(ex).__name__, str(ex)[:150]),
            'accepted': ['a function']})
        return
    ctx.count('compiled')
    for args in case['args']:
        ctx.case(('multiconst', case['id'], args))
        try:
            got = [xl.canon(xl.scalar(v)) for v in func(*args)]
            sol = m.calculate(inputs=dict(zip(ins, args)), outputs=outs)
            want = [xl.canon(xl.scalar(sol[o])) for o in outs]
        except Exception as ex:
            ctx.count('multiconst.raised')
            continue
        ctx.count('monitor.compiled-vs-interpreted')
        ctx.count('monitor.multiconst')
        for o, g, w_ in zip(outs, got, want):
            if not xl.same(g, w_, rel=1e-12):
                ctx.violation('multiconst:differs:%s->%s' % (wbrun._cls(g), wbrun._cls(w_)), {
                    'case': dict(case, args=[args]), 'cell': o, 'formula': d[o],
                    'arguments': args, 'observed': xl.show(g),
                    'accepted': [xl.show(w_) + ' (calculate with the same inputs)']})


# -- workbooks finished with circular=True ----------------------------------------------

def make_circular_case(seed, i):
    from . import c10
    rng = random.Random('fvmon/C08/circ/%s/%s' % (seed, i))
    desc = c10.gen_workbook(rng)
    d = c10.to_dict(desc)
    keys = sorted(k for k in d if "!" not in k or True)
    cyc = sorted(desc['cells'])
    I = rng.sample(cyc, rng.randint(1, 2)) if rng.random() < 0.7 else []
    I += rng.sample(sorted(desc['consts']), rng.randint(0 if I else 1, 2))
    O = [k for k in rng.sample(cyc + sorted(desc['acyclic']), min(len(cyc), 4))
         if k not in I]
    pool = (True, False, 1.0, 0.0, 5.0, 7.0, 2.0)
    args = [[rng.choice(pool) for _ in I] for _ in range(4)]
    return {'kind': 'circular', 'id': '%s/%s' % (seed, i), 'desc': desc, 'I': I, 'O': O,
            'args': args}


def check_circular_case(case, ctx):
    import formulas
    from . import c10
    if not case['O']:
        return
    d = c10.to_dict(case['desc'])
    I, O = case['I'], case['O']
    try:
        m = formulas.ExcelModel().from_dict(dict(d), assemble=False)
        m.finish(complete=False, circular=True)
        if any(n not in m.dsp.nodes for n in I + O):
            ctx.count('skipped.node-absent')
            return
        func = m.compile(I, O)
    except Exception as ex:
        ctx.violation('circular:compile-raised:%s' % type(ex).__name__, {
            'case': case, 'observed': '%s: %s' % (type(ex).__name__, str(ex)[:150]),
            'accepted': ['a function']})
        return
    for args in case['args']:
        ctx.case(('circ', case['id'], args))
        w = {'case': dict(case, args=[args]), 'inputs': I, 'outputs': O,
             'arguments': args, 'formulas': {k: v for k, v in d.items()
                                             if isinstance(v, str)}}
        try:
            sol = m.calculate(inputs=dict(zip(I, args)), outputs=O)
            want = [xl.canon(xl.scalar(sol[o])) if o in sol else ('missing',) for o in O]
        except Exception:
            ctx.count('interpreted-raised')
            continue
        try:
            res = func(*args)
            res = res if isinstance(res, (list, tuple)) else [res]
            got = [xl.canon(xl.scalar(v)) for v in res]
        except Exception as ex:
            ctx.violation('circular:call-raised:%s' % type(ex).__name__, dict(
                w, observed='%s: %s' % (type(ex).__name__, str(ex)[:150]),
                accepted=['values of calculate(inputs, outputs)']))
            continue
        ctx.count('monitor.circular-compiled-vs-interpreted')
        for o, g, x in zip(O, got, want):
            if x != ('missing',) and not xl.same(g, x, rel=1e-12):
                dv = getattr(func.dsp, 'default_values', {}).get(o) or {}
                w['output_default_in_function'] = (
                    'none' if not dv else 'circular placeholder (initial distance %r)' % (
                        dv.get('initial_dist'),)
                    if type(dv.get('initial_dist')).__name__ == 'inf' else 'frozen value')
                # placeholders among the output's precedents inside the function
                anc, seen_, st_ = [], set(), [o]
                dvs = getattr(func.dsp, 'default_values', {})
                pred_ = func.dsp.dmap.pred
                while st_:
                    k_ = st_.pop()
                    if k_ in seen_:
                        continue
                    seen_.add(k_)
                    dv_ = dvs.get(k_) or {}
                    if type(dv_.get('initial_dist')).__name__ == 'inf':
                        anc.append(str(k_))
                    st_.extend(pred_.get(k_, ()))
                w['circular_placeholders_upstream_in_function'] = sorted(anc)[:8]
                ctx.violation('circular:differs:%s->%s:%s' % (
                    wbrun._cls(g), wbrun._cls(x),
                    'input-in-cycle' if set(I) & set(case['desc']['cells'])
                    else 'input-outside'), dict(
                    w, cell=o, observed=xl.show(g), accepted=[xl.show(x)]))
                break


def plan(tier, seed):
    nm = 96 if tier == 'quick' else 1400
    per = 8 if tier == 'quick' else 40
    specs = [{'kind': 'models', 'lo': lo, 'hi': min(nm, lo + per)}
             for lo in range(0, nm, per)]
    for i in range(2 if tier == 'quick' else 16):
        specs.append({'kind': 'formulas', 'count': 700 if tier == 'quick' else 3000})
    nmc = 200 if tier == 'quick' else 3000
    for lo in range(0, nmc, 100):
        specs.append({'kind': 'multiconst', 'lo': lo, 'hi': lo + 100})
    ncirc = 300 if tier == 'quick' else 4000
    for lo in range(0, ncirc, 100):
        specs.append({'kind': 'circular', 'lo': lo, 'hi': lo + 100})
    return specs


def check_case(case, ctx):
    if case['kind'] == 'multiconst':
        check_multiconst_case(case, ctx)
    elif case['kind'] == 'circular':
        check_circular_case(case, ctx)
    elif case['kind'] == 'model':
        check_model_case(case, ctx)
    else:
        check_formula_case(case, ctx)


def run(spec, ctx):
    if spec['kind'] == 'multiconst':
        for i in range(spec['lo'], spec['hi']):
            case = make_multiconst_case(spec['seed'], i)
            check_multiconst_case(case, ctx)
        ctx.sample({'cells': case['cells'], 'inputs': case['inputs'],
                    'outputs': case['outputs']})
        return
    if spec['kind'] == 'circular':
        for i in range(spec['lo'], spec['hi']):
            case = make_circular_case(spec['seed'], i)
            ctx.open_case({'kind': 'circular', 'id': case['id']})
            check_circular_case(case, ctx)
        ctx.sample({'circular_inputs': case['I'], 'outputs': case['O']})
        return
    if spec['kind'] == 'models':
        for i in range(spec['lo'], spec['hi']):
            for case in make_model_case(spec['seed'], i) or ():
                ctx.open_case({'kind': 'model', 'id': case['id']})
                check_model_case(case, ctx)
        ctx.sample({'inputs': case['I'], 'outputs': case['O'],
                    'arguments': case['args'][0]})
    else:
        rng = ctx.rng
        for _ in range(spec['count']):
            t = gf.rand_tree(rng, rng.randint(1, 4), p_call=0.2, p_arr=0.0)
            refs = gf.refs_of(t)
            if not refs:
                continue
            envs = [{r: rng.choice(LIT_POOL) for r in refs} for _ in range(4)]
            case = {'kind': 'formula', 'tree': t, 'args': envs}
            check_formula_case(case, ctx)
        ctx.sample({'formula': gf.render(t), 'arguments': envs[0]})


def finalize(agg, tier):
    c, inc = agg['counters'], []
    for k, floor in (('monitor.compiled-vs-interpreted', 800),
                     ('monitor.compiled-vs-reference', 500),
                     ('monitor.formula-vs-literals', 2000), ('compiled', 150),
                     ('monitor.multiconst', 400),
                     ('monitor.circular-compiled-vs-interpreted', 600),
                     ('monitor.model-calculated-between-calls', 300),
                     ('monitor.published-member-current', 100),
                     ('monitor.permuted-recompile', 100),
                     ('monitor.back-to-back-calls', 200)):
        if c.get(k, 0) < floor:
            inc.append('monitor %s saw %d events (< %d)' % (k, c.get(k, 0), floor))
    if c.get('compiled.with-frozen-values', 0) * 10 < 3 * c.get('compiled', 1):
        inc.append('compiled functions with pre-computed values: %d of %d (< 30%%)' % (
            c.get('compiled.with-frozen-values', 0), c.get('compiled', 0)))
    return {'inconclusive': inc}
