"""C04 - every spelling of a reference denotes the same node; distinct differ.

Metamorphic monitor: a rectangle class (dir, book, sheet, c1, r1, c2, r2) is
spelled in every listed way through the real Range / Ranges API; all names of
one class must agree, names of different classes must differ (collision
dictionary kept over the shard), a canonical name must re-read to itself and
to the same rectangle, and columns convert both ways (all 16384).
No assumption is made about what the canonical string looks like.
"""
import itertools

from .. import xl
from ..ref import ranges as rr

ID = 'C04'
LEVEL = 'exploration'
RULE = ('a case is one (rectangle class, spelling, observation path); classes: '
        'every column 1..16384 (exhaustive), rows at the grid boundaries and '
        'at random, random rectangles, whole rows/columns/sheet, on sheets '
        'from several name alphabets and books; spellings: $ markers, case, '
        'A1/R1C1, R[..]C[..] from random hosts, A1:A1, whole-row/column forms, '
        'sheet quoting/case, implicit vs explicit sheet/book, numeric external '
        'link ids, defined-name case; distinct = distinct (class, spelling '
        'text, context); non-trivial = produced a name that was compared')
ASSUMPTIONS = [
    'relative forms are generated with non-zero offsets only (the tokenizer '
    'has no R[0]/RC spelling); absolute R1C1 whole-row/column forms R1:R2 / '
    'C1:C2 are not generated because they are valid A1 ranges too',
    'reversed corners (B2:A1) are not in the statement and not generated',
    'workbook file-name case is not varied (not listed in the statement)',
]
MAXC, MAXR = rr.MAXCOL, rr.MAXROW
EDGE_ROWS = (1, 2, 9, 10, 99, 100, MAXR - 1, MAXR)

SHEETS = [  # (name, needs_quotes, class)
    ('Sheet1', False, 'plain'), ('DATA', False, 'plain'), ('x_1', False, 'plain'),
    ('a.b', False, 'plain'), ('My Sheet', True, 'space'),
    ('two  spaces', True, 'space'), ("it's", True, 'apostrophe'),
    ('S-1', True, 'punct'), ('2020', True, 'digit-first'),
    ('Üni', False, 'plain'), ('', False, 'none'),
]
BOOKS = [('', ''), ('', 'b.xlsx'), ('', 'Book 2.xlsx'), ('sub', 'c.xlsx'),
         ('', '2024_q1.xlsx'), ('arch', '7.xlsx'), ('', '3d-model.xlsx')]


def _is_edge(cls):
    return cls[5] == MAXC or cls[6] == MAXR


def _sheet_class(sheet):
    for n, _, c in SHEETS:
        if n.upper() == sheet.upper():
            return c
    return 'other'


def _a1(c1, r1, c2, r2, dollars=0, lower=False, force_range=False):
    """lower: True = both corners, 'first' / 'second' = one corner only"""
    def cell(c, r, d, low):
        col = rr.col_name(c)
        if low:
            col = col.lower()
        return '%s%s%s%d' % ('$' if d & 1 else '', col, '$' if d & 2 else '', r)
    l1, l2 = lower in (True, 'first'), lower in (True, 'second')
    if (c1, r1) == (c2, r2) and not force_range:
        return cell(c1, r1, dollars & 3, l1)
    return '%s:%s' % (cell(c1, r1, dollars & 3, l1), cell(c2, r2, dollars >> 2, l2))


def _sheet_prefixes(sheet, needs_q, rng):
    """Spellings of the sheet qualifier (text before `!`)."""
    if not sheet:
        return []
    q = "'%s'" % sheet.replace("'", "''")
    out = [q, "'%s'" % sheet.upper().replace("'", "''"),
           "'%s'" % sheet.lower().replace("'", "''")]
    if not needs_q:
        out += [sheet, sheet.upper(), sheet.lower(), sheet.swapcase()]
    return out


def spellings(cls, rng, full=False):
    """Yield (kind, text, ctx) for one class."""
    d, book, sheet, c1, r1, c2, r2 = cls
    needs_q = any(s[1] for s in SHEETS if s[0] == sheet)
    base_ctx = {}
    if book:
        base_ctx.update({'directory': d, 'filename': book})
    refs = []  # (kind, ref text, extra ctx, form)
    single = (c1, r1) == (c2, r2)
    whole_col = (r1, r2) == (1, MAXR)
    whole_row = (c1, c2) == (1, MAXC)
    f0 = 'cell' if single else 'range'
    refs.append(('a1', _a1(c1, r1, c2, r2), {}, f0))
    dl = range(1, 16) if full else rng.sample(range(1, 16), 3)
    for dd in dl:
        if single and dd > 3:
            continue
        refs.append(('dollar', _a1(c1, r1, c2, r2, dd), {}, f0))
    refs.append(('lower', _a1(c1, r1, c2, r2, rng.randrange(16), True), {}, f0))
    refs.append(('lower', _a1(c1, r1, c2, r2, rng.randrange(16),
                              rng.choice(('first', 'second'))), {}, f0))
    if single:
        refs.append(('a1:a1', _a1(c1, r1, c2, r2, 0, False, True), {}, 'cell-as-range'))
        refs.append(('a1:a1', _a1(c1, r1, c2, r2, rng.randrange(16),
                                  rng.choice(('first', 'second')), True), {},
                     'cell-as-range'))
        refs.append(('lower', _a1(c1, r1, c2, r2, rng.randrange(16), True, True), {},
                     'cell-as-range'))
        refs.append(('r1c1', 'R%dC%d' % (r1, c1), {}, 'cell'))
        refs.append(('r1c1', 'r%dc%d' % (r1, c1), {}, 'cell'))
        refs.append(('r1c1:r1c1', 'R%dC%d:R%dC%d' % (r1, c1, r1, c1), {},
                     'cell-as-range'))
    else:
        refs.append(('r1c1', 'R%dC%d:R%dC%d' % (r1, c1, r2, c2), {}, 'range'))
        refs.append(('r1c1', 'r%dc%d:r%dC%d' % (r1, c1, r2, c2), {}, 'range'))
    if whole_col and not whole_row:
        a, b = rr.col_name(c1), rr.col_name(c2)
        refs.append(('whole-col', '%s:%s' % (a, b), {}, 'cols'))
        refs.append(('whole-col', '$%s:$%s' % (a.lower(), b), {}, 'cols'))
        refs.append(('whole-col', '%s:%s' % (a.lower(), b.lower()), {}, 'cols'))
        refs.append(('whole-col', '%s:$%s' % (a, b.lower()), {}, 'cols'))
        if c1 != c2:   # corners in descending order
            refs.append(('whole-col', '%s:%s' % (b, a), {}, 'cols'))
            refs.append(('whole-col', '$%s:$%s' % (b.lower(), a), {}, 'cols'))
    if whole_row and not whole_col:
        refs.append(('whole-row', '%d:%d' % (r1, r2), {}, 'rows'))
        refs.append(('whole-row', '$%d:$%d' % (r1, r2), {}, 'rows'))
        refs.append(('whole-row', '%d:$%d' % (r1, r2), {}, 'rows'))
        if r1 != r2:
            refs.append(('whole-row', '%d:%d' % (r2, r1), {}, 'rows'))
            refs.append(('whole-row', '$%d:$%d' % (r2, r1), {}, 'rows'))
    if whole_row and whole_col:
        refs.append(('whole-sheet', 'A:XFD', {}, 'sheet-cols'))
        refs.append(('whole-sheet', '$a:xfd', {}, 'sheet-cols'))
        refs.append(('whole-sheet', '1:1048576', {}, 'sheet-rows'))
        refs.append(('whole-sheet', '$1:$1048576', {}, 'sheet-rows'))
    # relative forms from random host cells (offsets must be non-zero)
    for _ in range(3 if full else 1):
        cr = rng.choice([x for x in (1, 2, 5, 77, MAXR - 1, MAXR, rng.randint(1, MAXR))
                         if x not in (r1, r2)])
        cc = rng.choice([x for x in (1, 2, 5, 300, MAXC - 1, MAXC, rng.randint(1, MAXC))
                         if x not in (c1, c2)])
        host = {'cr': str(cr), 'cc': cc}
        sg = lambda v: ('+%d' % v) if v > 0 and rng.random() < 0.3 else '%d' % v
        lc = lambda t: t.lower() if rng.random() < 0.3 else t
        if single:
            refs.append(('relative', lc('R[%s]C[%s]' % (sg(r1 - cr), sg(c1 - cc))),
                         host, 'cell'))
        refs.append(('relative', lc('R[%s]C[%s]:R[%s]C[%s]' % (
            sg(r1 - cr), sg(c1 - cc), sg(r2 - cr), sg(c2 - cc))), host,
            'cell-as-range' if single else 'range'))
        if whole_row and not whole_col:
            refs.append(('relative-row', lc('R[%s]:R[%s]' % (sg(r1 - cr), sg(r2 - cr))),
                         host, 'rows'))
        if whole_col and not whole_row:
            refs.append(('relative-col', lc('C[%s]:C[%s]' % (sg(c1 - cc), sg(c2 - cc))),
                         host, 'cols'))
    for kind, ref, extra, form in refs:
        relative = kind.startswith('relative')
        # (1) everything implicit: sheet and book from the context
        ctx = dict(base_ctx, **extra)
        if sheet:
            ctx['sheet'] = rng.choice((sheet.upper(), sheet))
        yield kind + '/implicit', ref, ctx, form
        if relative or not sheet:
            continue   # relative forms take no qualifier in the grammar
        # (2) explicit sheet, book from the context
        for pre in (_sheet_prefixes(sheet, needs_q, rng) if (full or kind == 'a1')
                    else [rng.choice(_sheet_prefixes(sheet, needs_q, rng))]):
            ctx = dict(base_ctx, **extra)
            ctx['sheet'] = 'OTHERSHEET'
            yield kind + '/sheet', '%s!%s' % (pre, ref), ctx, form
        # (3) explicit book and sheet
        if book:
            dd = (d + '/') if d else ''
            q = "'%s[%s]%s'" % (dd, book, sheet.replace("'", "''"))
            yield kind + '/book', '%s!%s' % (q, ref), dict(extra, sheet='ZZ'), form
            q2 = "'%s[%s]%s'" % (dd, book, sheet.swapcase().replace("'", "''"))
            yield kind + '/book-sheetcase', '%s!%s' % (q2, ref), dict(extra), form
            # [0] is the workbook of the host cell itself
            own = dict(base_ctx, **extra)
            own['sheet'] = 'ZZ'
            yield kind + '/own-index', "'[0]%s'!%s" % (sheet.replace("'", "''"), ref), own, form
            if not needs_q:
                yield kind + '/own-index', '[0]%s!%s' % (rng.choice((
                    sheet, sheet.lower())), ref), dict(own), form
            if not needs_q:
                yield kind + '/extlink', '[3]%s!%s' % (sheet, ref), dict(
                    extra, external_links={'3': (d, book), '4': ('', 'zz.xlsx')}), form


def observe(text, ctx):
    """-> dict(path -> (name, rect) or ('EXC', type))"""
    from formulas.tokens.operand import Range
    from formulas.ranges import Ranges
    out = {}
    try:
        t = Range(text, ctx)
        if t.end_match != len(text):
            out['Range'] = ('PARTIAL', text[:t.end_match])
        else:
            out['Range'] = ('OK', t.name, None)
    except Exception as ex:
        out['Range'] = ('EXC', type(ex).__name__)
    try:
        d = Ranges().push(text, context=ctx).ranges[0]
        out['push'] = ('OK', d['name'], list(rr.rect_of(d))[1:])
    except Exception as ex:
        out['push'] = ('EXC', type(ex).__name__)
    return out


class Monitor:
    def __init__(self, ctx):
        self.ctx = ctx
        self.by_name = {}

    def check_class(self, cls, full=False):
        ctx, rng = self.ctx, self.ctx.rng
        edge = 'edge' if _is_edge(cls) else 'inner'
        sc = _sheet_class(cls[2])
        names = {}
        ref_names = {}      # form -> (name, text)
        for kind, text, c, form in spellings(cls, rng, full):
            case = {'kind': 'class', 'cls': list(cls), 'full': full}
            obs = observe(text, c)
            ctx.case((cls, text, sorted((k, str(v)) for k, v in c.items())))
            ctx.count('spell.' + kind.split('/')[0])
            ctx.see('spelling_kinds', kind)
            for path, o in obs.items():
                ctx.count('observe.' + path)
                if o[0] != 'OK':
                    ctx.violation('unreadable:%s:%s:%s:%s:%s' % (
                        kind, path, o[1], edge, sc), {
                        'case': case, 'spelling': text, 'context': c,
                        'observed': o, 'accepted': ['a name']})
                    continue
                name = o[1]
                if o[2] is not None and o[2] != list(cls[3:]):
                    ctx.violation('rect-differs:%s:%s' % (kind, sc), {
                        'case': case, 'spelling': text, 'context': c,
                        'observed': o[2], 'accepted': [list(cls[3:])]})
                ref = ref_names.setdefault(form, (name, text))
                if name != ref[0]:
                    # same syntactic form: never explained by the edge finding
                    ctx.violation('name-differs:%s:%s:%s' % (kind, form, sc), {
                        'case': case, 'spelling': text, 'context': c,
                        'observed': name, 'accepted': [ref[0]],
                        'reference_spelling': ref[1]})
                names.setdefault(name, text)
        forms = sorted(ref_names)
        for f in forms[1:]:
            ctx.count('cross-form')
            if ref_names[f][0] != ref_names[forms[0]][0]:
                ctx.violation('form-differs:%s~%s:%s:%s' % (forms[0], f, edge, sc), {
                    'case': {'kind': 'class', 'cls': list(cls), 'full': full},
                    'spelling': ref_names[f][1], 'observed': ref_names[f][0],
                    'accepted': [ref_names[forms[0]][0]],
                    'reference_spelling': ref_names[forms[0]][1]})
        ref_name = ref_names[forms[0]] if forms else None
        for name, text in names.items():
            key = tuple(cls[:1]) + (cls[1], cls[2].upper()) + tuple(cls[3:])
            prev = self.by_name.setdefault(name, (key, text))
            ctx.count('collision.checked')
            if prev[0] != key:
                e2 = 'edge' if (edge == 'edge' or prev[0][5] == MAXC or
                                prev[0][6] == MAXR) else 'inner'
                ctx.violation('collision:%s:%s' % (e2, sc), {
                    'case': {'kind': 'collide', 'a': list(cls), 'b': list(prev[0])},
                    'name': name, 'spellings': [text, prev[1]],
                    'observed': 'one identifier for two rectangles',
                    'accepted': ['distinct identifiers']})
            self.reread(name, cls, edge, sc)
        if len(ctx.samples) < 3 and names:
            ctx.sample({'class': list(cls), 'names': list(names)[:3],
                        'spelling': ref_name[1] if ref_name else None})

    def reread(self, name, cls, edge, sc):
        from formulas.ranges import Ranges
        ctx = self.ctx
        ctx.count('reread')
        case = {'kind': 'class', 'cls': list(cls), 'full': False}
        try:
            d = Ranges().push(name).ranges[0]
        except Exception as ex:
            ctx.violation('reread:raised:%s:%s:%s' % (type(ex).__name__, edge, sc), {
                'case': case, 'name': name, 'observed': type(ex).__name__,
                'accepted': [name]})
            return
        if d['name'] != name:
            ctx.violation('reread:differs:%s:%s' % (edge, sc), {
                'case': case, 'name': name, 'observed': d['name'],
                'accepted': [name]})
        elif list(rr.rect_of(d))[1:] != list(cls[3:]):
            ctx.violation('reread:rect:%s:%s' % (edge, sc), {
                'case': case, 'name': name,
                'observed': list(rr.rect_of(d))[1:], 'accepted': [list(cls[3:])]})


def check_columns(lo, hi, ctx):
    from formulas.tokens.operand import Range, _index2col, _col2index
    for i in range(lo, hi):
        col = rr.col_name(i)
        row = (i * 7919) % MAXR + 1
        if row == MAXR:
            row = 5
        edge = 'edge' if i == MAXC else 'inner'
        ctx.count('column')
        a, b = _index2col(i), _col2index(col)
        if a != col or b != i or _col2index(col.lower()) != i:
            ctx.violation('column-bijection:%s' % edge, {
                'case': {'kind': 'columns', 'lo': i, 'hi': i + 1},
                'observed': [a, b], 'accepted': [[col, i]]})
        obs = []
        for text in ('%s%d' % (col, row), '$%s$%d' % (col.lower(), row),
                     'R%dC%d' % (row, i)):
            try:
                t = Range(text)
                obs.append((t.name, int(t.attr.get('n1')), t.end_match == len(text)))
            except Exception as ex:
                obs.append(('EXC', type(ex).__name__, False))
        if any(o != obs[0] for o in obs) or obs[0][1] != i or not obs[0][2]:
            ctx.violation('column-spelling:%s' % edge, {
                'case': {'kind': 'columns', 'lo': i, 'hi': i + 1},
                'observed': obs, 'accepted': ['equal names, n1 == %d' % i]})
    ctx.case_bulk((hi - lo) * 4)


def check_names(ctx):
    """Defined names: case-insensitive, distinct names differ, qualifiers."""
    from formulas.tokens.operand import Range
    rng = ctx.rng
    seen = {}
    base = ['myName', 'Rate', 'x.y', '_tmp', 'A1B', 'TOTAL_2020', 'Årlig', 'rate2']
    for n in base:
        for book in ('', 'b.xlsx'):
            ctxs = {'sheet': 'SHEET1'}
            if book:
                ctxs['filename'] = book
                ctxs['directory'] = ''
            got = set()
            for sp in (n, n.upper(), n.lower(), n.swapcase()):
                for text in (sp, 'Sheet1!' + sp):
                    ctx.case(('name', book, text))
                    ctx.count('spell.defined-name')
                    try:
                        t = Range(text, ctxs)
                        ok = t.end_match == len(text)
                        got.add(t.name if ok else ('PARTIAL', text))
                    except Exception as ex:
                        got.add(('EXC', type(ex).__name__))
            if len(got) != 1 or not isinstance(next(iter(got)), str):
                ctx.violation('defined-name:case', {
                    'case': {'kind': 'names'}, 'name': n, 'book': book,
                    'observed': sorted(map(str, got)), 'accepted': ['one id']})
                continue
            ident = next(iter(got))
            prev = seen.setdefault(ident, (n.upper(), book))
            if prev != (n.upper(), book):
                ctx.violation('defined-name:collision', {
                    'case': {'kind': 'names'}, 'observed': ident,
                    'accepted': ['distinct ids for %r and %r' % (prev, (n, book))]})
            try:
                back = Range(ident).name
            except Exception as ex:
                back = type(ex).__name__
            ctx.count('reread')
            if back != ident:
                ctx.violation('defined-name:reread', {
                    'case': {'kind': 'names'}, 'name': ident, 'observed': back,
                    'accepted': [ident]})


def check_formula_inputs(classes, ctx):
    """Third observation point: the inputs mapping of a compiled formula."""
    import formulas
    rng = ctx.rng
    P = formulas.Parser()
    for cls in classes:
        sp = [(k, t, c) for k, t, c, _f in spellings(cls, rng)
              if '/implicit' in k and not k.startswith('relative')]
        if len(sp) < 2:
            continue
        (k1, t1, c1), (k2, t2, c2) = rng.sample(sp, 2)
        if c1 != c2:
            c2 = c1
        f = '=SUM(%s)+SUM(%s)' % (t1, t2)
        ctx.case(('formula-inputs', cls, f))
        ctx.count('observe.inputs')
        try:
            fn = P.ast(f, context=c1)[1].compile(context=c1)
            keys = list(fn.inputs)
        except Exception as ex:
            keys = ['EXC:' + type(ex).__name__]
        if len(keys) != 1:
            ctx.violation('inputs-mapping:%s:%s' % (
                'edge' if _is_edge(cls) else 'inner', _sheet_class(cls[2])), {
                'case': {'kind': 'inputs', 'cls': list(cls)}, 'formula': f,
                'context': c1, 'observed': keys, 'accepted': ['one input node']})


# -- classes ------------------------------------------------------------------

def _rand_class(rng, sheets=SHEETS, books=BOOKS):
    sheet = rng.choice(sheets)[0]
    d, book = rng.choice(books)
    if not sheet:
        d = book = ''
    t = rng.random()
    col = lambda: rng.choice((1, 2, 26, 27, 52, 702, 703, MAXC - 1, MAXC,
                              rng.randint(1, MAXC), rng.randint(1, 60)))
    row = lambda: rng.choice(EDGE_ROWS + (rng.randint(1, MAXR), rng.randint(1, 200)))
    if t < 0.3:
        c, r = col(), row()
        return (d, book, sheet, c, r, c, r)
    if t < 0.75:
        c1, c2 = sorted((col(), col()))
        r1, r2 = sorted((row(), row()))
        return (d, book, sheet, c1, r1, c2, r2)
    if t < 0.86:
        c1, c2 = sorted((col(), col()))
        return (d, book, sheet, c1, 1, c2, MAXR)
    if t < 0.97:
        r1, r2 = sorted((row(), row()))
        return (d, book, sheet, 1, r1, MAXC, r2)
    return (d, book, sheet, 1, 1, MAXC, MAXR)


def _boundary_classes():
    out = []
    for sheet in ('', 'Sheet1'):
        for c in (1, 2, MAXC - 1, MAXC):
            for r in (1, 2, MAXR - 1, MAXR):
                out.append(('', '', sheet, c, r, c, r))
        for (c1, c2) in ((1, 1), (1, 2), (MAXC, MAXC), (3, MAXC), (1, MAXC)):
            for (r1, r2) in ((1, 1), (1, 2), (MAXR, MAXR), (7, MAXR), (1, MAXR)):
                out.append(('', '', sheet, c1, r1, c2, r2))
    return out


def plan(tier, seed):
    specs = []
    n = 8 if tier == 'quick' else 16
    w = (MAXC + n - 1) // n
    for i in range(n):
        specs.append({'kind': 'columns', 'lo': 1 + i * w,
                      'hi': min(MAXC + 1, 1 + (i + 1) * w)})
    ns = 7 if tier == 'quick' else 30
    for i in range(ns):
        specs.append({'kind': 'classes', 'count': 1100 if tier == 'quick' else 3500,
                      'full': tier == 'thorough' and i % 3 == 0})
    specs.append({'kind': 'names'})
    return specs


def check_case(case, ctx):
    k = case['kind']
    if k == 'class':
        Monitor(ctx).check_class(tuple(case['cls']), full=True)
    elif k == 'collide':
        m = Monitor(ctx)
        m.check_class(tuple(case['b']), full=True)
        m.check_class(tuple(case['a']), full=True)
    elif k == 'columns':
        check_columns(case['lo'], case['hi'], ctx)
    elif k == 'names':
        check_names(ctx)
    elif k == 'inputs':
        check_formula_inputs([tuple(case['cls'])] * 20, ctx)


def run(spec, ctx):
    k = spec['kind']
    if k == 'columns':
        check_columns(spec['lo'], spec['hi'], ctx)
        ctx.see('exhaustive', 'columns')
        m = Monitor(ctx)
        # single-column classes for a stride of the shard's columns
        for i in range(spec['lo'], spec['hi'], 97):
            m.check_class(('', '', 'Sheet1', i, 1, i, MAXR))
            m.check_class(('', '', '', i, 3, i, 3))
    elif k == 'classes':
        m = Monitor(ctx)
        classes = _boundary_classes()
        for _ in range(spec['count']):
            classes.append(_rand_class(ctx.rng))
        # neighbours of random classes (distinctness is most at risk there)
        for cls in list(classes[-200:]):
            d, b, s, c1, r1, c2, r2 = cls
            if c2 < MAXC:
                classes.append((d, b, s, c1, r1, c2 + 1, r2))
            if r1 > 1:
                classes.append((d, b, s, c1, r1 - 1, c2, r2))
            others = [x for x in SHEETS if x[0] and x[0] != s]
            classes.append((d, b, ctx.rng.choice(others)[0], c1, r1, c2, r2))
            if b:
                classes.append(('', 'other.xlsx', s, c1, r1, c2, r2))
        for cls in classes:
            ctx.open_case({'kind': 'class', 'cls': list(cls)})
            m.check_class(cls, full=spec.get('full', False))
        check_formula_inputs(ctx.rng.sample(classes, 250), ctx)
    elif k == 'names':
        check_names(ctx)


def finalize(agg, tier):
    c, inc = agg['counters'], []
    if c.get('column', 0) != MAXC:
        inc.append('columns covered %d != %d' % (c.get('column', 0), MAXC))
    for k, floor in (('observe.Range', 20000), ('observe.push', 20000),
                     ('reread', 3000), ('collision.checked', 3000),
                     ('observe.inputs', 500), ('spell.relative', 2000),
                     ('spell.r1c1', 2000), ('spell.dollar', 5000),
                     ('spell.whole-col', 300), ('spell.whole-row', 300),
                     ('spell.defined-name', 50)):
        if c.get(k, 0) < floor:
            inc.append('monitor %s saw %d events (< %d)' % (k, c.get(k, 0), floor))
    return {'inconclusive': inc, 'coverage': {
        'columns_covered': c.get('column', 0), 'exhaustive': True,
        'exhaustive_note': 'all 16384 columns; rectangles sampled'}}
