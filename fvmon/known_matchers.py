"""Named predicates over violation witnesses; see known.py."""
from .known import matcher  # noqa: F401
