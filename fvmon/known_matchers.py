"""Named predicates over violation witnesses; see known.py."""
from .known import matcher  # noqa: F401


MAXCOL = 16384


@matcher('c06_simplify_whole_row')
def c06_simplify_whole_row(w, v):
    """simplify() enumerates columns from n1, which is 0 for whole rows."""
    if not v['sig'].startswith('ranges.simplify:raised:InvalidRangeName'):
        return False
    case = w.get('case') or {}
    areas = (case.get('a') or []) + (case.get('b') or [])
    return any(a[1] == 1 and a[3] == MAXCOL for a in areas)


@matcher('c06_paren_intersection_lost')
def c06_paren_intersection_lost(w, v):
    """`(a1,a2) (b1,b2)`: the space between `)` and `(` is swallowed and the
    two groups are read as two function arguments (a union)."""
    if not v['sig'].startswith('formula:and:') or \
            not v['sig'].endswith(':multi-both'):
        return False
    f = w.get('formula') or ''
    return ') (' in f and w.get('observed') == w.get('as_two_arguments')
