"""Named predicates over violation witnesses; see known.py."""
from .known import matcher  # noqa: F401


MAXCOL = 16384


@matcher('c06_simplify_whole_row')
def c06_simplify_whole_row(w, v):
    """simplify() enumerates columns from n1, which is 0 for whole rows."""
    if not v['sig'].startswith('ranges.simplify:raised:InvalidRangeName'):
        return False
    case = w.get('case') or {}
    areas = (case.get('a') or []) + (case.get('b') or [])
    return any(a[1] == 1 and a[3] == MAXCOL for a in areas)


@matcher('c06_paren_intersection_lost')
def c06_paren_intersection_lost(w, v):
    """`(a1,a2) (b1,b2)`: the space between `)` and `(` is swallowed and the
    two groups are read as two function arguments (a union)."""
    if not v['sig'].startswith('formula:and:') or \
            not v['sig'].endswith(':multi-both'):
        return False
    f = w.get('formula') or ''
    return ') (' in f and w.get('observed') == w.get('as_two_arguments')


MAXROW = 1048576


def _touches_edge(cls):
    return cls[5] == MAXCOL or cls[6] == MAXROW


@matcher('c04_last_row_or_column')
def c04_last_row_or_column(w, v):
    """The canonical name renders the grid's last column / last row as empty
    text (XFD1048576 -> '', A1048576 -> 'A', A1:A1048576 -> 'A1:A'), so
    rectangles touching that edge get several ids, ids that do not re-read,
    and ids shared with other rectangles."""
    parts = v['sig'].split(':')
    if 'edge' not in parts:
        return False
    case = w.get('case') or {}
    classes = [case.get(k) for k in ('cls', 'a', 'b') if case.get(k)]
    if case.get('kind') == 'columns':
        return case.get('hi') == MAXCOL + 1 and case.get('lo') == MAXCOL
    return bool(classes) and any(_touches_edge(c) for c in classes)


@matcher('c04_sheet_name_not_requoted')
def c04_sheet_name_not_requoted(w, v):
    """The canonical id quotes a sheet name only when it contains a space and
    never re-doubles an apostrophe, so ids of sheets such as S-1, 2020 or it's
    cannot be read back."""
    parts = v['sig'].split(':')
    if parts[0] != 'reread' or parts[-1] not in (
            'apostrophe', 'punct', 'digit-first'):
        return False
    name = w.get('name') or ''
    sheet = name.rsplit('!', 1)[0]
    if parts[-1] == 'apostrophe':
        inner = sheet[1:-1] if sheet.startswith("'") else sheet
        return "'" in inner.replace("''", '')
    return not sheet.startswith("'")
