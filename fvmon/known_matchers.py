"""Named predicates over violation witnesses; see known.py."""
from .known import matcher  # noqa: F401


MAXCOL = 16384


@matcher('c06_simplify_whole_row')
def c06_simplify_whole_row(w, v):
    """simplify() enumerates columns from n1, which is 0 for whole rows."""
    if not v['sig'].startswith('ranges.simplify:raised:InvalidRangeName'):
        return False
    case = w.get('case') or {}
    areas = (case.get('a') or []) + (case.get('b') or [])
    return any(a[1] == 1 and a[3] == MAXCOL for a in areas)


@matcher('c06_paren_intersection_lost')
def c06_paren_intersection_lost(w, v):
    """`(a1,a2) (b1,b2)`: the space between `)` and `(` is swallowed and the
    two groups are read as two function arguments (a union)."""
    if not v['sig'].startswith('formula:and:') or \
            not v['sig'].endswith(':multi-both'):
        return False
    f = w.get('formula') or ''
    return ') (' in f and w.get('observed') == w.get('as_two_arguments')


MAXROW = 1048576


def _touches_edge(cls):
    return cls[5] == MAXCOL or cls[6] == MAXROW


def _col_name(n):
    s = ''
    while n > 0:
        n, k = divmod(n - 1, 26)
        s = chr(65 + k) + s
    return s


def _elision_names(cls):
    """Every name the elision rule can give the rectangle: a coordinate that
    equals the last column/row (or the first, in whole-row/column forms) is
    present or dropped; upper case only."""
    c1, r1, c2, r2 = cls[3:7]
    o_c1 = {_col_name(c1)} | ({''} if c1 in (1, MAXCOL) else set())
    o_r1 = {str(r1)} | ({''} if r1 in (1, MAXROW) else set())
    o_c2 = {_col_name(c2)} | ({''} if c2 == MAXCOL else set())
    o_r2 = {str(r2)} | ({''} if r2 == MAXROW else set())
    out = set()
    for a in o_c1:
        for b in o_r1:
            for c in o_c2:
                for d in o_r2:
                    out.add('%s%s:%s%s' % (a, b, c, d))
                    if (c1, r1) == (c2, r2) or a + b == c + d:
                        out.add(a + b)
    return out


def _split_name(name):
    if '!' in name:
        sheet, ref = name.rsplit('!', 1)
        return sheet, ref
    return '', name


@matcher('c04_last_row_or_column')
def c04_last_row_or_column(w, v):
    """The canonical name drops a coordinate equal to the grid's last column /
    last row (XFD1048576 -> '', A1048576 -> 'A', A1:A1048576 -> 'A1:A' but
    A:A -> 'A:A'; the test is case sensitive, so xfd1 -> 'XFD1' but XFD1 ->
    '1').  Rectangles touching that edge therefore get several ids, ids that
    do not re-read, and ids shared with other rectangles.  Accepted only when
    every name involved is one the elision rule can produce for that
    rectangle (so e.g. a lower-case or shifted name is still reported)."""
    kind = v['sig'].split(':')[0]
    case = w.get('case') or {}
    if case.get('kind') == 'columns':
        return kind == 'column-spelling' and case.get('lo') == MAXCOL
    classes = [case.get(k) for k in ('cls', 'a', 'b') if case.get(k)]
    if not classes or not any(_touches_edge(c) for c in classes):
        return False

    def ok(name, sheet=None):
        if not isinstance(name, str):
            return False
        s, ref = _split_name(name)
        if sheet is not None and s != sheet:
            return False
        return any(ref in _elision_names(c) for c in classes)

    if kind in ('name-differs', 'form-differs'):
        acc = (w.get('accepted') or [None])[0]
        if not isinstance(acc, str):
            return False
        return ok(acc) and ok(w.get('observed'), _split_name(acc)[0])
    if kind == 'reread':
        name = w.get('name')
        obs = w.get('observed')
        if not ok(name):
            return False
        return obs == 'InvalidRangeName' or isinstance(obs, list) or \
            (isinstance(obs, str) and ('!' not in obs or
                                       _split_name(obs)[0] == _split_name(name)[0]))
    if kind == 'collision':
        name = w.get('name')
        s, ref = _split_name(name or '')
        return len(classes) == 2 and all(
            ref in _elision_names(c) for c in classes)
    if kind == 'inputs-mapping':
        obs = w.get('observed') or []
        return len(obs) > 1 and all(ok(n) for n in obs)
    return False


@matcher('c04_sheet_name_not_requoted')
def c04_sheet_name_not_requoted(w, v):
    """The canonical id quotes a sheet name only when it contains a space and
    never re-doubles an apostrophe, so ids of sheets such as S-1, 2020 or it's
    cannot be read back."""
    parts = v['sig'].split(':')
    if parts[0] != 'reread' or parts[-1] not in (
            'apostrophe', 'punct', 'digit-first'):
        return False
    name = w.get('name') or ''
    sheet = name.rsplit('!', 1)[0]
    if parts[-1] == 'apostrophe':
        inner = sheet[1:-1] if sheet.startswith("'") else sheet
        return "'" in inner.replace("''", '')
    return not sheet.startswith("'")


@matcher('c18_function_named_like_reference')
def c18_function_named_like_reference(w, v):
    """`=A1(1)+A1`: the text `A1(` is tokenised as a call of a function named
    A1; its function-node id then collides with the data node of the reference
    A1 used elsewhere in the formula and schedula raises ValueError."""
    if not v['sig'].startswith('escape:ValueError:'):
        return False
    obs = w.get('observed') or ''
    if 'Invalid data id: override function ' not in obs:
        return False
    name = obs.rsplit('override function ', 1)[1].strip()
    text = ''.join(((w.get('case') or {}).get('text') or '').upper().split())
    return bool(name) and (name.upper() + '(') in text


@matcher('c02_concat_number_rendering')
def c02_concat_number_rendering(w, v):
    """& renders a number with python's '%d' / str(): 1E+200 becomes a
    201-digit integer and 1E-200 becomes '1e-200', where Excel's General
    format gives 1E+200 / 1E-200.  Only for operands >= 1e15 or < 1e-9."""
    import re
    parts = v['sig'].split(':')
    if parts[0] != '&' or not parts[-1] == 'text->text':
        return False
    if 'numbig' not in parts[1] and 'numtiny' not in parts[1]:
        return False
    obs = w.get('observed') or ''
    return bool(re.search(r'[0-9]{16,}', obs) or re.search(r'[0-9]e[+-][0-9]', obs))


def _has_sign_run(text):
    prev, instr = '', False
    for ch in text or '':
        if ch == '"':
            instr = not instr
            prev = ch
            continue
        if instr or ch.isspace():
            continue
        if ch in '+-' and prev in ('+', '-'):
            return True
        prev = ch
    return False


@matcher('c01_sign_run_folded')
def c01_sign_run_folded(w, v):
    """A run of + / - signs (e.g. `1+-2^2`, `--"3"`, `- -x`) is folded by the
    tokenizer into a single sign, so the tree is not the one the grammar
    assigns.  Only spellings that contain such a run are accepted."""
    kind = v['sig'].split(':')[0]
    if kind not in ('text', 'value', 'spellings-disagree', 'to_dict', 'name',
                    'reparse-differs', 'reparse-value', 'reparse-raised'):
        return False
    return bool(w.get('sign_run')) and (
        _has_sign_run(w.get('spelling')) or _has_sign_run(w.get('exported')))


@matcher('c01_double_percent_rejected')
def c01_double_percent_rejected(w, v):
    """`=2%%` (postfix % applied twice) is rejected: the tokenizer matches the
    run `%%` as one token that is not an operator."""
    import re
    if not (v['sig'].startswith('rejected-valid:FormulaError') or
            v['sig'].startswith('to_dict:raised:FormulaError') or
            v['sig'].startswith('reparse-raised:FormulaError')):
        return False
    texts = [w.get('spelling') or '', w.get('exported') or '']
    texts += [a for a in (w.get('accepted') or []) if isinstance(a, str)]
    cells = (w.get('case') or {}).get('cells') or {}
    texts += [x for x in cells.values() if isinstance(x, str)]
    obs = w.get('observed') or ''
    return any(re.search(r'%[\s)]*%', t) for t in texts) or \
        bool(re.search(r'%[\s)]*%', obs))


@matcher('c08_frozen_range_holds_none')
def c08_frozen_range_holds_none(w, v):
    """ExcelModel.compile() pre-evaluates the shrunk model and freezes every
    node not downstream of the inputs; for some input/output choices a frozen
    range is assembled with schedula's NONE token in place of a blank cell, so
    blank-sensitive functions (COUNTA, ISBLANK ...) differ from calculate()."""
    if not v['sig'].startswith(('differs:', 'reference-differs:')):
        return False
    return bool(w.get('frozen_values_holding_NONE'))


@matcher('c07_range_override_stale_member')
def c07_range_override_stale_member(w, v):
    """A value supplied through a multi-cell range or a name does not replace
    a member cell that holds an input-free formula (an error constant is the
    formula =#ERR in this library; also =2, =SUM(4,3)): that cell's own
    function is evaluated first and wins, so the cell - and whoever reads it
    directly - keeps the old value."""
    parts = v['sig'].split(':')
    if parts[0] not in ('reference', 'restricted-outputs-differ'):
        return False
    if 'stale-member' in parts:
        if parts[0] == 'restricted-outputs-differ':
            return bool(w.get('stale_member'))
        return bool(w.get('stale_member')) and w.get('observed') in (
            w.get('own_value'), w.get('own_value_unpopulated_members_unseen'))
    if 'downstream-of-stale-member' in parts:
        return bool(w.get('downstream_of_stale_member'))
    return False


@matcher('c07_range_override_unpopulated_member')
def c07_range_override_unpopulated_member(w, v):
    """A value supplied through a range or name for a cell that is unpopulated
    in the workbook (no node of its own) is not seen by other formulas that
    read that cell directly or through an overlapping range."""
    parts = v['sig'].split(':')
    if parts[0] not in ('reference', 'restricted-outputs-differ'):
        return False
    # members with a blank node of their own / members that no node defines
    # (their value travels through the solution object, without an edge)
    return ('downstream-of-unpopulated-member' in parts and
            bool(w.get('downstream_of_unpopulated_member'))) or \
        ('downstream-of-nodeless-unpopulated-member' in parts and
         bool(w.get('downstream_of_nodeless_unpopulated_member')))


@matcher('c05_equal_size_reshaped')
def c05_equal_size_reshaped(w, v):
    """A value whose number of elements equals that of the destination but
    whose shape differs is re-laid out row by row (numpy.reshape) instead of
    being fitted: {1,2} into A1:A2 gives {1;2}.  The repository's own test
    test_output_236 relies on it (a 1x4 input for a 4x1 range)."""
    if not v['sig'].startswith('fit:'):
        return False
    case = w.get('case') or {}
    src, dest = case.get('src'), case.get('dest')
    if not src or not dest:
        return False
    r, c = len(src), len(src[0])
    if r * c != dest[0] * dest[1] or [r, c] == list(dest):
        return False
    flat = [x for row in src for x in row]
    rows = [flat[i * dest[1]:(i + 1) * dest[1]] for i in range(dest[0])]

    def show(x):
        if isinstance(x, bool):
            return 'TRUE' if x else 'FALSE'
        if isinstance(x, str):
            return '"%s"' % x
        return repr(float(x))
    want = '{' + ';'.join(','.join(show(x) for x in row) for row in rows) + '}'
    return w.get('observed') == want


@matcher('c09_sheet_apostrophe_in_ids')
def c09_sheet_apostrophe_in_ids(w, v):
    """Node ids of cells on a sheet whose name holds an apostrophe are written
    without re-doubling it, so the exported dictionary cannot be imported
    (same mechanism as C04-sheet-name-not-requoted)."""
    if v['sig'].startswith('reparse-raised:'):
        sheets = (w.get('case') or {}).get('sheets') or []
        text = w.get('spelling') or ''
        return any("'" in s and ("]%s'!" % s.upper()) in text for s in sheets)
    if not v['sig'].startswith('import-raised:'):
        return False
    suspect = w.get('suspect') or {}
    for k in suspect:
        sheet = k.rsplit('!', 1)[0]
        inner = sheet[1:-1] if sheet.startswith("'") else sheet
        if "'" in inner.replace("''", ''):
            return True
    return False


@matcher('c09_empty_marker_appears')
def c09_empty_marker_appears(w, v):
    """The second export lists an unpopulated cell as "#EMPTY" that the first
    export did not list: whether a blank cell of a referenced range becomes an
    explicit node depends on how many cells of that range are missing when the
    range is assembled, and the re-imported dictionary changes that count.
    Values are unaffected and the export is stable from the second one on."""
    if not v['sig'].startswith('export-drifts:'):
        return False
    diffs = w.get('all_differences') or []
    return bool(diffs) and len(diffs) == w.get('n_keys') and all(
        a == '"<absent>"' and b == '"#EMPTY"' for _k, a, b in diffs)


@matcher('c10_unselected_cycle_range_member')
def c10_unselected_cycle_range_member(w, v):
    """A cell whose only cycle closes through a non-selected IF/IFS/IFERROR
    branch is still marked #CIRC! when the cell is also a member of a range
    that is read inside another (active) cycle: solve_circular refuses to cut
    a cycle whose cell is fed by a range assembler linked to an active cycle."""
    return v['sig'].startswith('unselected-cycle-not-resolved:#CIRC!->') and \
        v['sig'].endswith(':range-member') and \
        bool(w.get('member_of_range_read_inside_another_cycle')) and \
        w.get('observed') == '#CIRC!'


@matcher('c11_incompatible_shapes_raise')
def c11_incompatible_shapes_raise(w, v):
    """An element-wise function given array arguments whose extents cannot be
    broadcast (e.g. a 2x2 and a 1x3 array) raises BroadcastError instead of
    returning #N/A beyond the common part."""
    parts = v['sig'].split(':')
    if parts[0] not in ('raised', 'lift') or 'BroadcastError' not in v['sig']:
        return False
    shapes = [tuple(s) for s in (w.get('array_shapes') or [])]
    if len(shapes) < 2:
        return False
    rows = {s[0] for s in shapes if s[0] != 1}
    cols = {s[1] for s in shapes if s[1] != 1}
    return len(rows) > 1 or len(cols) > 1


@matcher('c12_logical_typed_text_skipped')
def c12_logical_typed_text_skipped(w, v):
    """AND / OR / XOR skip a directly typed text argument instead of returning
    #VALUE! (the repository's tests pin OR("0",FALSE) = FALSE)."""
    name = v['sig'].split(':')[0]
    if name not in ('AND', 'OR', 'XOR'):
        return False
    args = ((w.get('case') or {}).get('args')) or []
    typed_text = any(a.get('t') == 'lit' and isinstance(a.get('v'), str)
                     for a in args)
    return typed_text and w.get('accepted') == ['#VALUE!'] and \
        w.get('observed') in ('TRUE', 'FALSE', '#VALUE!')


@matcher('c12_text_count_argument')
def c12_text_count_argument(w, v):
    """LEFT / RIGHT / MID convert their count / position argument with int():
    empty text counts as 0 instead of #VALUE! and numeric text with decimals
    ("1.5") is rejected instead of truncated."""
    name = v['sig'].split(':')[0]
    if name not in ('LEFT', 'RIGHT', 'MID'):
        return False
    args = ((w.get('case') or {}).get('args')) or []
    counts = [a.get('v') for a in args[1:] if a.get('t') in ('lit', 'ref')]
    return any(isinstance(c, str) for c in counts)


@matcher('c12_sum_family_counts_numeric_text')
def c12_sum_family_counts_numeric_text(w, v):
    """SUM / PRODUCT / SUMSQ / SUMPRODUCT add text that looks like a number
    found inside a referenced range or array (Excel skips it); the repository's
    test_compile_01 (=SUM(AA) with AA = ["100", "1"] -> 101) relies on it."""
    name = v['sig'].split(':')[0]
    return name in ('SUM', 'PRODUCT', 'SUMSQ', 'SUMPRODUCT') and \
        w.get('matches_when_numeric_text_in_references_counts') is True


@matcher('c17_function_reads_model_solution')
def c17_function_reads_model_solution(w, v):
    """A function compiled from a model keeps the model's dispatcher as the
    value of its SELF node: ranges spanning >= 2 unpopulated cells are
    assembled from the *model's* last solution, so a calculate() of the model
    that supplied a value for such a cell shows through in later calls."""
    if not v['sig'].startswith('differs-from-fresh:function:') or \
            w.get('operation') != 'call':
        return False
    case = w.get('case') or {}
    if case.get('circular'):
        return False
    from . import wbrun
    from .ref import workbook as rw
    from .props.c08 import _rect_nodes
    desc = case['desc']
    ev = rw.Evaluator(desc)
    side, step = w.get('side'), w.get('step')
    blanks = set()
    for s_, op, arg in case['history'][:step]:
        if s_ != side:
            continue
        if op == 'call':
            # an earlier call of the function itself: the values it received for
            # unpopulated members of a range input were written into that same
            # solution object by the inverse of the range
            for kind, key in case.get('fn_inputs') or ():
                if kind == 'range':
                    b, s, c1, r1, c2, r2 = key
                    blanks |= {(b, s, c, r) for c in range(c1, c2 + 1)
                               for r in range(r1, r2 + 1) if not ev.populated((b, s, c, r))}
            continue
        if op != 'model_calc_x':
            continue
        for kind, key, _val in arg:
            if kind in ('cell', 'formula-cell'):
                cells = [tuple(key)]
            elif kind == 'range':
                b, s, c1, r1, c2, r2 = key
                cells = [(b, s, c, r) for c in range(c1, c2 + 1) for r in range(r1, r2 + 1)]
            else:
                node = desc['names'][key[0]]
                if node[0] == 'cell':
                    cells = [tuple(node[1:5])]
                else:
                    b, s, c1, r1, c2, r2 = node[1:7]
                    cells = [(b, s, c, r) for c in range(c1, c2 + 1)
                             for r in range(r1, r2 + 1)]
            blanks |= {k for k in cells if not ev.populated(k)}
    if not blanks:
        return False
    # the SELF path: a rectangle read by a formula with >= 2 unpopulated cells
    sparse = set()
    for b, s, c1, r1, c2, r2 in _all_rects(desc):
        cells = [(b, s, c, r) for c in range(c1, c2 + 1) for r in range(r1, r2 + 1)]
        un = [k for k in cells if not ev.populated(k)]
        if len(un) >= 2:
            sparse |= set(un)
    hit = blanks & sparse
    if not hit:
        return False
    down = {gw_key(desc, k) for k in wbrun.downstream(desc, hit)}
    return w.get('cell') in down


def gw_key(desc, k):
    from .gen import workbooks as gw
    return gw.key_of(desc, *k)


def _all_rects(desc):
    """Every rectangle some formula reads: rng nodes of any size (<= 400
    cells), rectangle-valued names, whole rows clipped to columns 1..12."""
    from .gen import workbooks as gw
    out = set()

    def walk(t):
        if not isinstance(t, list) or not t:
            return
        k = t[0]
        if k == 'rng':
            if (t[5] - t[3] + 1) * (t[6] - t[4] + 1) <= 400:
                out.add(tuple(t[1:7]))
        elif k == 'row':
            out.add((t[1], t[2], 1, t[3], 12, t[4]))
        elif k == 'name':
            node = desc['names'].get(t[1])
            if node and node[0] == 'val':
                walk(node[2])
            elif node:
                walk(node)
        elif k == 'bin':
            walk(t[2])
            walk(t[3])
        elif k == 'call':
            for a in t[2]:
                walk(a)
    for b, s, addr, cell in gw.iter_cells(desc):
        if 'f' in cell:
            walk(cell['f'])
    return sorted(out)


@matcher('c08_range_input_unpopulated_member')
def c08_range_input_unpopulated_member(w, v):
    """A value supplied through a range (or name) input for a cell that is
    unpopulated in the workbook reaches other formulas that read that cell
    directly or through an overlapping range only by way of the shared
    solution object: the compiled function and calculate() then disagree
    (same mechanism as C07-range-override-unpopulated-member)."""
    if not v['sig'].startswith(('differs:', 'reference-differs:')):
        return False
    case = w.get('case') or {}
    desc = case.get('desc')
    if not desc or 'I' not in case:
        return False
    from . import wbrun
    from .ref import workbook as rw
    ev = rw.Evaluator(desc)
    blanks = set()
    for kind, key in case['I']:
        if kind == 'range':
            b, s, c1, r1, c2, r2 = key
        elif kind == 'name':
            node = desc['names'].get(key[0])
            if not node or node[0] != 'rng':
                continue
            b, s, c1, r1, c2, r2 = node[1:7]
        else:
            continue
        blanks |= {(b, s, c, r) for c in range(c1, c2 + 1) for r in range(r1, r2 + 1)
                   if not ev.populated((b, s, c, r))}
    if not blanks:
        return False
    return w.get('cell') in {gw_key(desc, k) for k in wbrun.downstream(desc, blanks)}


@matcher('c06_range_operand_reused_later')
def c06_range_operand_reused_later(w, v):
    """An area that is an operand of `:` (at any depth below it) and occurs
    again later in the same formula as an argument of its own: the range
    operator is then evaluated at run time from the operand values only, so
    the cells of the bounding rectangle outside the operands are blank."""
    return v['sig'] == 'pair:leaf-of-range-operator:leaf-last' and \
        bool(w.get('shared_leaf_is_operand_of_range_operator'))


@matcher('c08_circular_placeholder_in_pipe')
def c08_circular_placeholder_in_pipe(w, v):
    """A function compiled from a model finished with circular=True replays a
    fixed pipe: an output that carries the #CIRC! placeholder as its default
    (initial distance inf) keeps the placeholder where the interpreter resolves
    the cell.  Outputs frozen to a computed value are another mechanism and
    are not covered."""
    if not v['sig'].startswith('circular:differs:'):
        return False
    if str(w.get('output_default_in_function', '')).startswith('frozen'):
        return False        # a value frozen at compile time is another mechanism
    return str(w.get('output_default_in_function', '')).startswith(
        'circular placeholder') or bool(w.get('circular_placeholders_upstream_in_function'))


@matcher('c18_last_row_or_column_reference')
def c18_last_row_or_column_reference(w, v):
    """A reference touching the last column XFD or the last row 1048576 used
    under a reference operator: its canonical name drops that coordinate (the
    open finding C04-last-row-or-column) and reading the name back raises
    InvalidRangeName out of Parser.ast."""
    import re
    text = str((w.get('case') or {}).get('text') or '')
    return v['sig'].startswith('escape:InvalidRangeName:') and \
        bool(re.search(r'XFD|1048576', text, re.I))


@matcher('c08_name_of_blank_cell_input')
def c08_name_of_blank_cell_input(w, v):
    """compile() with a defined name among the inputs whose target cell is
    unpopulated: the blank filler node of that cell carries a default with
    initial distance 0, the value handed down by the name never replaces it,
    and outputs that depend on the cell are reported unreachable."""
    if not v['sig'].startswith('compile-raised:ValueError'):
        return False
    if 'Unreachable output-targets' not in str(w.get('observed', '')):
        return False
    case = w.get('case') or {}
    desc = case.get('desc')
    if not desc:
        return False
    from .ref import workbook as rw
    ev = rw.Evaluator(desc)
    for kind, key in case.get('I') or ():
        if kind == 'name':
            node = desc['names'].get(key[0])
            if node and node[0] == 'cell' and not ev.populated(tuple(node[1:5])):
                return True
    return False



# functions whose own argument conversion hands the text to python's float() /
# int() (call sites seen when the finding was recorded; any other function
# accepting such a text is reported)
_PYTEXT_SITES = frozenset((
    'ADDRESS', 'DATE', 'DATEDIF', 'DAY', 'DEC2BIN', 'DEC2HEX', 'DEC2OCT',
    'FORECAST', 'FORECAST.LINEAR', 'FV', 'HOUR', 'IPMT', 'ISEVEN', 'ISODD', 'LEFT',
    'MID', 'MINUTE', 'MONTH', 'MUNIT', 'NORM.DIST', 'NORM.INV', 'NORM.S.DIST',
    'NORMDIST', 'NORMINV', 'NORMSDIST', 'NPER', 'PMT', 'PPMT', 'PV', 'RATE',
    'REPLACE', 'RIGHT', 'ROMAN', 'SECOND', 'TIME', 'VALUE', 'WEEKDAY', 'YEAR'))


@matcher('c11_python_only_numeral_accepted')
def c11_python_only_numeral_accepted(w, v):
    """A text with python's digit separator ("1_0", "1_000.5") is read as a
    number by the functions that convert their arguments themselves with
    float() / int() (directly or after _text2num returned the text unchanged);
    the default argument parser (_float) rejects it."""
    if not v['sig'].startswith('pytext-accepted:'):
        return False
    return w.get('function') in _PYTEXT_SITES and '_' in str(w.get('text'))
