"""First import of every worker: guard, import path, third-party deps.

The guard variable FORMULAS_VERIF is read only here: the repository itself has
no source hooks, every probe is attached from outside (see DESIGN.md 2.1).
"""
import os
import sys
import fcntl
import subprocess

VERIF = os.path.dirname(os.path.dirname(os.path.abspath(__file__)))
REPO = os.environ.get('FVMON_REPO', '/repo')
DEPS = os.path.join(VERIF, '.deps')
WHEELS = '/opt/veriftools/wheels'
SCRATCH_ROOT = os.environ.get('FVMON_SCRATCH', '/root/.cache/fvmon')


def guard():
    if os.environ.get('FORMULAS_VERIF') != '1':
        sys.stderr.write('fvmon: FORMULAS_VERIF=1 not set; refusing to run\n')
        sys.exit(2)


def ensure_deps():
    """Install icontract from the offline wheelhouse into /verif/.deps."""
    marker = os.path.join(DEPS, 'icontract', '__init__.py')
    if os.path.exists(marker):
        return True
    os.makedirs(DEPS, exist_ok=True)
    with open(os.path.join(DEPS, '.lock'), 'w') as lock:
        fcntl.flock(lock, fcntl.LOCK_EX)
        if os.path.exists(marker):
            return True
        r = subprocess.run(
            ['/venv/bin/python', '-m', 'pip', 'install', '--quiet',
             '--no-index', '--find-links', WHEELS, '--target', DEPS,
             'icontract'],
            stdout=subprocess.PIPE, stderr=subprocess.STDOUT, timeout=300
        )
        if r.returncode != 0 or not os.path.exists(marker):
            sys.stderr.write(r.stdout.decode(errors='replace'))
            return False
    return True


def setup_path():
    """Make `import formulas` resolve to the tree under test."""
    if REPO not in sys.path[:1]:
        sys.path.insert(0, REPO)
    if DEPS not in sys.path:
        sys.path.append(DEPS)
    import warnings
    warnings.filterwarnings('ignore', category=SyntaxWarning)


def init_worker():
    guard()
    setup_path()
    import formulas  # noqa
    root = os.path.realpath(os.path.dirname(os.path.dirname(formulas.__file__)))
    if root != os.path.realpath(REPO):
        sys.stderr.write('fvmon: formulas imported from %s, expected %s\n' % (
            root, REPO))
        sys.exit(2)
