"""./check entry point: plans shards, runs workers, merges, judges, writes
evidence (DESIGN.md 2, 3.3-3.5)."""
import os
import sys
import json
import time
import glob
import shutil
import hashlib
import argparse
import importlib
import subprocess
import collections
from concurrent.futures import ThreadPoolExecutor

from . import bootstrap

VERIF = bootstrap.VERIF
PROPS = ['C%02d' % i for i in range(1, 21)]
MAX_LINES = 20


def _props_map():
    res = {}
    for p in PROPS:
        if os.path.exists(os.path.join(VERIF, 'fvmon', 'props', p.lower() + '.py')):
            res[p] = 'fvmon.props.' + p.lower()
    return res


def _run_worker(prop, spec, idx, tmpdir, env_base):
    specf = os.path.join(tmpdir, 'spec%03d.json' % idx)
    outf = os.path.join(tmpdir, 'out%03d.json' % idx)
    with open(specf, 'w') as f:
        json.dump(spec, f)
    env = dict(env_base)
    env['PYTHONHASHSEED'] = str(spec.get('hashseed', 0))
    env['FVMON_SHARD_DIR'] = os.path.join(tmpdir, 'w%03d' % idx)
    timeout = spec.get('timeout', 900)
    t0 = time.time()
    try:
        r = subprocess.run(
            ['/venv/bin/python', '-B', '-m', 'fvmon.worker', prop, specf, outf],
            cwd=VERIF, env=env, timeout=timeout,
            stdout=subprocess.PIPE, stderr=subprocess.PIPE)
        rc, err = r.returncode, r.stderr.decode(errors='replace')[-4000:]
    except subprocess.TimeoutExpired as ex:
        rc, err = 'timeout', (ex.stderr or b'').decode(errors='replace')[-2000:]
    shutil.rmtree(env['FVMON_SHARD_DIR'], ignore_errors=True)
    res = None
    if os.path.exists(outf):
        try:
            with open(outf) as f:
                res = json.load(f)
        except ValueError:
            res = None
    progress = None
    pf = outf + '.progress'
    if os.path.exists(pf):
        try:
            progress = open(pf).read()[-2000:]
        except OSError:
            pass
    return {'idx': idx, 'rc': rc, 'stderr': err, 'res': res, 'spec': spec,
            'wall': time.time() - t0, 'progress': progress}


def run_check(prop, tier, seed, replay=None, jobs=None):
    mods = _props_map()
    if prop not in mods:
        print('INCONCLUSIVE property=%s reason=no-such-check' % prop)
        return 2
    if not bootstrap.ensure_deps():
        print('INCONCLUSIVE property=%s reason=icontract-install-failed' % prop)
        return 2
    bootstrap.setup_path()
    mod = importlib.import_module(mods[prop])
    t0 = time.time()
    if replay:
        with open(replay) as f:
            w = json.load(f)
        specs = [{'kind': '__replay__', 'witness': w,
                  'hashseed': w.get('hashseed', 0)}]
    else:
        specs = mod.plan(tier, seed)
    for i, s in enumerate(specs):
        s.setdefault('tier', tier)
        s.setdefault('seed', seed)
        s.setdefault('shard', i)
    tmpdir = os.path.join(bootstrap.SCRATCH_ROOT, '%s-%d' % (prop, os.getpid()))
    shutil.rmtree(tmpdir, ignore_errors=True)
    os.makedirs(tmpdir)
    env = dict(os.environ)
    env['FORMULAS_VERIF'] = '1'
    env['PYTHONPATH'] = VERIF + os.pathsep + env.get('PYTHONPATH', '')
    env.pop('PYTHONDONTWRITEBYTECODE', None)
    jobs = jobs or int(os.environ.get('FVMON_JOBS', '16'))
    try:
        with ThreadPoolExecutor(jobs) as ex:
            outs = list(ex.map(
                lambda a: _run_worker(prop, a[1], a[0], tmpdir, env),
                enumerate(specs)))
    finally:
        shutil.rmtree(tmpdir, ignore_errors=True)
    return judge(prop, mod, tier, seed, outs, time.time() - t0,
                 replay=bool(replay))


def _sig_hash(sig):
    return hashlib.blake2b(sig.encode(), digest_size=5).hexdigest()


def judge(prop, mod, tier, seed, outs, wall, replay=False):
    from . import known
    inconclusive = []
    evaluations = 0
    distinct = set()
    distinct_bulk = 0
    counters = collections.Counter()
    sets = collections.defaultdict(set)
    maxes = {}
    samples = []
    viols = collections.OrderedDict()
    viol_counts = collections.Counter()
    extra = {}
    for o in outs:
        res = o['res']
        if o['rc'] != 0 or res is None:
            inconclusive.append('shard %d (%s) rc=%s open_case=%s stderr=%s' % (
                o['idx'], o['spec'].get('kind'), o['rc'],
                (o.get('progress') or '')[-300:],
                o['stderr'][-600:].replace('\n', ' | ')))
            if res is None:
                continue
        evaluations += res['evaluations']
        distinct.update(res['distinct'])
        distinct_bulk += res.get('distinct_bulk', 0)
        counters.update(res['counters'])
        for k, v in res.get('sets', {}).items():
            sets[k].update(map(_freeze, v))
        for k, v in res.get('maxes', {}).items():
            maxes[k] = max(maxes.get(k, v), v)
        for s in res['samples']:
            if len(samples) < 12:
                samples.append(s)
        for v in res['violations']:
            viol_counts[v['sig']] += v.get('count', 1)
            viols.setdefault(v['sig'], v)
        for k, v in res.get('extra', {}).items():
            extra.setdefault(k, v)
        inconclusive.extend(res.get('inconclusive', ()))
    agg = {
        'evaluations': evaluations, 'distinct': len(distinct) + distinct_bulk,
        'counters': counters, 'sets': sets, 'maxes': maxes, 'extra': extra,
        'outs': outs,
    }
    if hasattr(mod, 'finalize') and not replay:
        fin = mod.finalize(agg, tier) or {}
        inconclusive.extend(fin.get('inconclusive', ()))
        for v in fin.get('violations', ()):
            viol_counts[v['sig']] += v.get('count', 1)
            viols.setdefault(v['sig'], v)
        extra.update(fin.get('coverage', {}))

    findings = known.load()
    known_seen = collections.OrderedDict()
    unknown = []
    for sig, v in viols.items():
        fid = known.classify(prop, v, findings)
        if fid:
            d = known_seen.setdefault(fid, {'count': 0, 'example': v})
            d['count'] += viol_counts[sig]
        else:
            unknown.append(v)

    alt = os.path.realpath(bootstrap.REPO) != os.path.realpath('/repo')
    out_root = os.path.join(bootstrap.SCRATCH_ROOT, 'alt-out') if alt else VERIF
    os.makedirs(os.path.join(out_root, 'replays'), exist_ok=True)
    os.makedirs(os.path.join(out_root, 'evidence'), exist_ok=True)
    lines = []
    for fid, d in known_seen.items():
        f = findings[fid]
        lines.append('KNOWN-FINDING: property=%s %s [%s] seen=%d e.g. %s' % (
            prop, f['what'], fid, d['count'],
            _short(d['example'].get('witness'))))
    replay_paths = []
    for v in unknown[:MAX_LINES]:
        path = os.path.join('replays', '%s-%s.json' % (prop, _sig_hash(v['sig'])))
        w = dict(v)
        w['property'] = prop
        w['seed'] = seed
        w['tier'] = tier
        with open(os.path.join(out_root, path), 'w') as f:
            json.dump(w, f, indent=1, default=repr)
        replay_paths.append(path)
        lines.append('VIOLATION property=%s replay=%s' % (prop, path))
        lines.append('  sig=%s count=%d witness=%s' % (
            v['sig'], viol_counts[v['sig']], _short(v.get('witness'), 600)))
    if os.environ.get('FVMON_DUMP'):
        with open(os.environ['FVMON_DUMP'], 'w') as f:
            for v in unknown:
                f.write(json.dumps(v, default=repr) + '\n')
    if len(unknown) > MAX_LINES:
        lines.append('  ... %d more distinct violation signatures' % (
            len(unknown) - MAX_LINES))
    for r in inconclusive[:10]:
        lines.append('INCONCLUSIVE property=%s reason=%s' % (prop, r))

    cov = {
        'evaluations': evaluations,
        'distinct_nontrivial': len(distinct) + distinct_bulk,
        'rule': getattr(mod, 'RULE', ''),
        'samples': samples or [{'note': 'no sample recorded'}],
        'monitor_events': dict(sorted(counters.items())),
        'observed_sets': {k: sorted(map(_thaw, v), key=repr)[:200]
                          for k, v in sorted(sets.items())},
        'maxima': maxes,
        'shards': len(outs),
        'known_findings_seen': {k: d['count'] for k, d in known_seen.items()},
        'violation_signatures': [v['sig'] for v in unknown][:400],
        'inconclusive': inconclusive[:10],
    }
    cov.update(extra)
    ev = {
        'property_id': prop, 'tier': tier, 'seed': seed,
        'level': getattr(mod, 'LEVEL', 'exploration'),
        'coverage': cov,
        'assumptions': list(getattr(mod, 'ASSUMPTIONS', [])),
        'wall_s': round(wall, 2),
        'violations': len(unknown),
    }
    if not replay:
        with open(os.path.join(out_root, 'evidence', prop + '.json'), 'w') as f:
            json.dump(ev, f, indent=1, default=repr, sort_keys=True)
    print('OBSERVED property=%s tier=%s seed=%s evaluations=%d distinct=%d '
          'shards=%d wall=%.1fs' % (prop, tier, seed, evaluations,
                                    cov['distinct_nontrivial'], len(outs), wall))
    for k, v in sorted(counters.items()):
        print('  monitor %s = %d' % (k, v))
    for ln in lines:
        print(ln)
    if unknown:
        return 1
    if inconclusive:
        return 2
    print('HELD property=%s on everything explored' % prop)
    return 0


def _freeze(v):
    if isinstance(v, list):
        return tuple(_freeze(x) for x in v)
    return v


def _thaw(v):
    if isinstance(v, tuple):
        return [_thaw(x) for x in v]
    return v


def _short(o, n=240):
    s = json.dumps(o, default=repr, sort_keys=True)
    return s if len(s) <= n else s[:n] + '...'


def setup():
    ok = bootstrap.ensure_deps()
    os.makedirs(os.path.join(VERIF, 'evidence'), exist_ok=True)
    os.makedirs(os.path.join(VERIF, 'replays'), exist_ok=True)
    print('setup: icontract %s' % ('ok' if ok else 'FAILED'))
    return 0 if ok else 1


def main(argv=None):
    bootstrap.guard()
    ap = argparse.ArgumentParser(prog='check')
    ap.add_argument('prop', nargs='?')
    ap.add_argument('--tier', default=os.environ.get('VERIF_TIER', 'quick'),
                    choices=['quick', 'thorough'])
    ap.add_argument('--replay')
    ap.add_argument('--setup', action='store_true')
    ap.add_argument('--jobs', type=int)
    a = ap.parse_args(argv)
    if a.setup:
        return setup()
    if not a.prop:
        ap.error('property id required')
    try:
        seed = int(os.environ.get('VERIF_SEED', '0'))
    except ValueError:
        seed = 0
    return run_check(a.prop.upper(), a.tier, seed, a.replay, a.jobs)


if __name__ == '__main__':
    sys.exit(main())
