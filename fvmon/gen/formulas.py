"""Seeded generator of formula trees and of their concrete spellings.

Tree nodes are JSON-able lists:
  ['num', text] ['str', s] ['bool', b] ['ref', 'A1'] ['err', '#N/A']
  ['bin', op, a, b] ['un', '-'|'+', a] ['pct', a]
  ['call', NAME, [args]]   (an arg may be ['empty'])
  ['arr', [[leaf, ...], ...]]
The rank table is the one of the property text: comparison < & < + - < * / <
^ < % < unary sign; equal rank groups left to right.
"""

CMP = ('=', '<>', '<', '>', '<=', '>=')
BINOPS = ('+', '-', '*', '/', '^', '&') + CMP
RANK = {'&': 2, '+': 3, '-': 3, '*': 4, '/': 4, '^': 5}
RANK.update({c: 1 for c in CMP})
R_PCT, R_UN = 6, 7
ALL_OPS = BINOPS + ('%', 'u-', 'u+')          # the 15 operators


def rank(t):
    k = t[0]
    if k == 'bin':
        return RANK[t[1]]
    if k == 'pct':
        return R_PCT
    if k == 'un':
        return R_UN
    return 9


# -- canonical rendering (the format the library documents) -----------------

def render(t):
    """Fully parenthesised rendering, as exported by the library."""
    k = t[0]
    if k == 'num':
        return t[1]
    if k == 'str':
        return '"%s"' % t[1].replace('"', '""')
    if k == 'bool':
        return 'TRUE' if t[1] else 'FALSE'
    if k in ('ref', 'err'):
        return t[1].upper()
    if k == 'empty':
        return ''
    if k == 'bin':
        return '(%s %s %s)' % (render(t[2]), t[1], render(t[3]))
    if k == 'un':
        return '%s%s' % (t[1], render(t[2]))
    if k == 'pct':
        return '%s%%' % render(t[1])
    if k == 'call':
        return '%s(%s)' % (t[1].upper(), ', '.join(render(a) for a in t[2]))
    if k == 'arr':
        return 'ARRAY(%s)' % ', '.join(
            'ARRAY(%s)' % ', '.join(render(x) for x in row) for row in t[1])
    raise ValueError(k)


def normalise_text(s):
    """Layout-insensitive form: white space outside string literals removed,
    everything outside string literals upper-cased."""
    out, instr, i = [], False, 0
    while i < len(s):
        ch = s[i]
        if ch == '"':
            instr = not instr
            out.append(ch)
        elif instr:
            out.append(ch)
        elif not ch.isspace():
            out.append(ch.upper())
        i += 1
    return ''.join(out)


# -- spelling -----------------------------------------------------------------

class Speller:
    """Concrete spellings of a tree.

    full: parenthesise every operator node; extra: probability of redundant
    parentheses; ws: probability of white space at each gap; case: probability
    of changing the case of names / references / TRUE / E;
    guard_signs: put a sign in parentheses when it would directly follow
    another sign or a binary + / - (False produces sign runs such as `1+-2`).
    """

    def __init__(self, rng, ws=0.0, case=0.0, extra=0.0, full=False,
                 guard_signs=True):
        self.rng, self.ws, self.case = rng, ws, case
        self.extra, self.full, self.guard = extra, full, guard_signs

    def _w(self):
        r = self.rng
        if self.ws and r.random() < self.ws:
            return r.choice((' ', '  ', ' ', '\n', ' \n '))
        return ''

    def _case(self, s):
        r = self.rng
        if self.case and r.random() < self.case:
            return r.choice((s.lower(), s.upper(), s.swapcase(), s.capitalize()))
        return s

    def _wrap(self, s, need, operator=True):
        if need or (self.full and operator):
            s = '(%s%s%s)' % (self._w(), s, self._w())
        while self.extra and self.rng.random() < self.extra:
            s = '(%s%s%s)' % (self._w(), s, self._w())
        return s

    def spell(self, t):
        return '=' + self._w() + self._sp(t, 0, '')

    def _sp(self, t, parent, side, after_sign=False):
        """parent: rank of the enclosing operator (0 = none); side: which
        operand of it ('l', 'r', 'u' = of a sign, 'p' = of a %);
        after_sign: the text would directly follow a sign or a binary +/-."""
        k = t[0]
        if k == 'num':
            return self._wrap(self._case(t[1]), False, False)
        if k == 'str':
            return self._wrap('"%s"' % t[1].replace('"', '""'), False, False)
        if k == 'bool':
            return self._wrap(self._case('TRUE' if t[1] else 'FALSE'), False, False)
        if k in ('ref', 'err'):
            return self._wrap(self._case(t[1]), False, False)
        if k == 'empty':
            return ''
        if k == 'bin':
            r = RANK[t[1]]
            a = self._sp(t[2], r, 'l', after_sign)
            b = self._sp(t[3], r, 'r', t[1] in '+-')
            s = '%s%s%s%s%s' % (a, self._w(), t[1], self._w(), b)
            return self._wrap(s, r < parent or (r == parent and side == 'r'))
        if k == 'un':
            inner = self._sp(t[2], R_UN, 'u', True)
            s = '%s%s%s' % (t[1], self._w(), inner)
            return self._wrap(s, self.guard and after_sign)
        if k == 'pct':
            inner = self._sp(t[1], R_PCT, 'p', after_sign)
            s = '%s%s%%' % (inner, self._w())
            return self._wrap(s, parent == R_UN)
        if k == 'call':
            args = ''
            for i, a in enumerate(t[2]):
                if i:
                    args += '%s,%s' % (self._w(), self._w())
                args += self._sp(a, 0, 'a')
            return self._wrap('%s(%s%s%s)' % (
                self._case(t[1]), self._w(), args, self._w()), False, False)
        if k == 'arr':
            rows = []
            for row in t[1]:
                rows.append(('%s,%s' % (self._w(), self._w())).join(
                    self._leaf(x) for x in row))
            return '{%s%s%s}' % (
                self._w(), ('%s;%s' % (self._w(), self._w())).join(rows),
                self._w())
        raise ValueError(k)

    def _leaf(self, t):
        if t[0] == 'str':
            return '"%s"' % t[1].replace('"', '""')
        if t[0] == 'bool':
            return self._case('TRUE' if t[1] else 'FALSE')
        return self._case(t[1])


def has_sign_run(text):
    """True when two sign characters, or a binary operator and a sign, are
    separated only by white space (outside string literals) - the spelling
    class behind the sign-run folding finding; also a leading sign run."""
    s, prev, instr = text, '', False
    for ch in s:
        if ch == '"':
            instr = not instr
            prev = ch
            continue
        if instr or ch.isspace():
            continue
        if ch in '+-' and prev in ('+', '-'):
            return True
        prev = ch
    return False


# -- random trees ---------------------------------------------------------------

NUMS = ['2', '3', '5', '7', '11', '13', '1.5', '2.5', '0.5', '17', '19', '4',
        '0.25', '10', '1E+2', '1.5E-1', '23', '29']
STRS = ['a', 'b', 'x y', 'Q', "it's", 'say "hi"', '', '1', ' p', ',', '(', ')',
        'a,b', ';', '{1,2}', '&', '=1+2', '%', ':', ' ', '"', 'A1', 'TRUE', '#N/A',
        ', ', '),(', 'two\nlines', '\n', 'tab\there']
FUNCS_VAR = ['CONCATENATE', 'SUM', 'MAX', 'MIN', 'TEXTJOIN', 'IF', 'AND', 'OR']


def rand_leaf(rng, refs=('A1', 'B1', 'C1'), kinds='nsbr'):
    k = rng.choice(kinds)
    if k == 'n':
        return ['num', rng.choice(NUMS)]
    if k == 's':
        return ['str', rng.choice(STRS)]
    if k == 'b':
        return ['bool', rng.random() < 0.5]
    return ['ref', rng.choice(refs)]


def rand_tree(rng, depth, refs=('A1', 'B1', 'C1'), numeric=False, p_call=0.15,
              p_arr=0.05, arg=False):
    """Random tree to the given depth over the whole vocabulary.  Array
    literals appear only as call arguments or as the whole formula (array
    arithmetic belongs to C05)."""
    if arg and rng.random() < p_arr * 3:
        rows, cols = rng.randint(1, 3), rng.randint(1, 3)
        return ['arr', [[rand_leaf(rng, refs, 'nnsb') for _ in range(cols)]
                        for _ in range(rows)]]
    if depth <= 0 or rng.random() < 0.15:
        return rand_leaf(rng, refs, 'nnr' if numeric else 'nnsbr')
    r = rng.random()
    sub = lambda: rand_tree(rng, depth - 1, refs, numeric, p_call, p_arr)
    suba = lambda: rand_tree(rng, depth - 1, refs, numeric, p_call, p_arr, True)
    if r < 0.55:
        ops = ('+', '-', '*', '/', '^') if numeric else BINOPS
        return ['bin', rng.choice(ops), sub(), sub()]
    if r < 0.67:
        return ['un', rng.choice('-+'), sub()]
    if r < 0.75:
        return ['pct', sub()]
    if r < 0.75 + p_call:
        name = rng.choice(FUNCS_VAR)
        n = rng.randint(1, 4)
        agg = name in ('SUM', 'MAX', 'MIN', 'AND', 'OR')
        args = [suba() if agg else sub() for _ in range(n)]
        if name == 'IF':
            args = [['bin', rng.choice(CMP), sub(), sub()], sub(), sub()][:rng.randint(2, 3)]
        if name == 'TEXTJOIN':
            args = [['str', rng.choice((',', '-', ''))], ['bool', rng.random() < 0.5]] + args
        if name in ('SUM', 'CONCATENATE') and rng.random() < 0.3 and len(args) > 1:
            args[rng.randrange(len(args))] = ['empty']
        return ['call', name, args]
    return rand_leaf(rng, refs, 'nnr' if numeric else 'nnsbr')


def depth(t):
    k = t[0]
    if k == 'bin':
        return 1 + max(depth(t[2]), depth(t[3]))
    if k == 'un':
        return 1 + depth(t[2])
    if k == 'pct':
        return 1 + depth(t[1])
    if k == 'call':
        return 1 + max([depth(a) for a in t[2]] or [0])
    return 0


def refs_of(t, out=None):
    out = [] if out is None else out
    k = t[0]
    if k == 'ref':
        if t[1].upper() not in out:
            out.append(t[1].upper())
    elif k == 'bin':
        refs_of(t[2], out)
        refs_of(t[3], out)
    elif k == 'un':
        refs_of(t[2], out)
    elif k == 'pct':
        refs_of(t[1], out)
    elif k == 'call':
        for a in t[2]:
            refs_of(a, out)
    elif k == 'arr':
        for row in t[1]:
            for x in row:
                refs_of(x, out)
    return out
