"""Seeded generator of workbook *descriptions* and their renderings.

A description is JSON-able:
  {'books': [{'name': 'b1.xlsx', 'sheets': [{'name': 'Data', 'cells': {...}}]}],
   'names': {'RATE': <ref node>}, 'err': '#N/A'}
A cell is {'v': constant} or {'f': tree} or {'f': tree, 'arr': [c1, r1, c2, r2]}
(the anchor of an array formula; its key is the top-left cell).

Formula trees:
  ['lit', v] ['err', '#N/A'] ['cell', b, s, c, r] ['rng', b, s, c1, r1, c2, r2]
  ['row', b, s, r1, r2] ['col', b, s, c1, c2] ['name', NAME]
  ['bin', op, a, b] ['call', F, [args]]
It can be rendered (a) to a from_dict dictionary with fully qualified
references, (b) to .xlsx files written with openpyxl, and evaluated by
ref.workbook.  Dependencies are acyclic by construction: a formula refers to
constant zones, to formula cells created earlier, or to constant-only sheets.
"""
import os

from ..ref.ranges import col_name

MAXC, MAXR = 16384, 1048576

SHEET_NAMES = ['Data', 'Calc', 'My Sheet', 'x_2', 'Ma\u00dfe', 'K\u0131\u015f']
CONST_COLS = (1, 2, 3)        # A..C constants zone
ROWS = 8


def sheet_id(book, sheet):
    """Canonical sheet id used by the library for (book, sheet)."""
    return "'[%s]%s'" % (book, sheet.upper())


def key_of(desc, b, s, c, r):
    bk = desc['books'][b]
    return '%s!%s%d' % (sheet_id(bk['name'], bk['sheets'][s]['name']),
                        col_name(c), r)


def rect_key(desc, b, s, c1, r1, c2, r2):
    bk = desc['books'][b]
    sid = sheet_id(bk['name'], bk['sheets'][s]['name'])
    if (c1, r1) == (c2, r2):
        return '%s!%s%d' % (sid, col_name(c1), r1)
    return '%s!%s%d:%s%d' % (sid, col_name(c1), r1, col_name(c2), r2)


def _q(sheet):
    if sheet.replace('_', '').replace('.', '').isalnum() and not sheet[0].isdigit():
        return sheet
    return "'%s'" % sheet.replace("'", "''")


def _style(desc, node, host):
    """Deterministic spelling style of one occurrence of a reference, when
    the description asks for respelling (desc['spelling'] = seed)."""
    seed = desc.get('spelling')
    if seed is None:
        return None
    import random
    return random.Random('spell/%s/%r/%r' % (seed, node, host))


def ref_text(desc, node, host=None, full=False):
    """Reference text of a ref node as seen from host=(b, s).

    With desc['spelling'] set, every occurrence is spelled in one of the
    equivalent forms of the same rectangle: $ markers, letter case, reversed
    corners, explicit qualification with its own sheet, quoted / case-changed
    sheet name, case of defined names."""
    k = node[0]
    st = _style(desc, node, host)
    if k == 'name':
        nm = node[1]
        if st:
            nm = st.choice((nm, nm.upper(), nm.lower(), nm.swapcase()))
        if full:
            nb = desc['names'][node[1]][1]
            return "'[%s]'!%s" % (desc['books'][nb]['name'], nm)
        return nm
    b, s = node[1], node[2]
    bk = desc['books'][b]
    sh = bk['sheets'][s]['name']

    def cell(c, r):
        c, r = col_name(c), '%d' % r
        if st:
            c = st.choice(('', '$')) + st.choice((c, c.lower()))
            r = st.choice(('', '$')) + r
        return c + r
    r1c1 = None
    if st and full and host is not None and len(host) >= 4 and k in ('cell', 'rng') \
            and st.random() < 0.3:
        # R1C1 notation, absolute or relative to the host cell (offsets of 0
        # are written as plain R / C); files hold A1 formulas only
        hc, hr = host[2], host[3]

        def rc(c, r, rel):
            if not rel:
                return 'R%dC%d' % (r, c)
            return 'R%sC%s' % ('[%d]' % (r - hr) if r != hr else '',
                               '[%d]' % (c - hc) if c != hc else '')
        rel = False     # qualified references: the library reads relative
        #                 R1C1 only without a sheet (see C03's flat family)
        if k == 'cell':
            if not (rel and node[3] == hc and node[4] == hr):
                r1c1 = rc(node[3], node[4], rel)
        elif not rel or (hc not in (node[3], node[5]) and hr not in (node[4], node[6])):
            r1c1 = '%s:%s' % (rc(node[3], node[4], rel), rc(node[5], node[6], rel))
        if r1c1 and st.random() < 0.3:
            r1c1 = r1c1.lower()
    if r1c1:
        ref = r1c1
    elif k == 'cell':
        ref = cell(node[3], node[4])
        if st and st.random() < 0.15:
            ref = '%s:%s' % (ref, cell(node[3], node[4]))      # redundant A1:A1
    elif k == 'rng':
        c1, r1, c2, r2 = node[3:7]
        if st:
            if st.random() < 0.3:
                c1, c2 = c2, c1                                  # reversed corners
            if st.random() < 0.3:
                r1, r2 = r2, r1
        ref = '%s:%s' % (cell(c1, r1), cell(c2, r2))
    elif k == 'row':
        ref = '%d:%d' % (node[3], node[4])
        if st:
            ref = '%s%d:%s%d' % (st.choice(('', '$')), node[3], st.choice(('', '$')), node[4])
    elif k == 'col':
        ref = '%s:%s' % (col_name(node[3]), col_name(node[4]))
        if st:
            ref = st.choice((ref, ref.lower(), '$%s:$%s' % (
                col_name(node[3]), col_name(node[4]))))
    else:
        raise ValueError(k)
    if st:
        sh = st.choice((sh, sh.upper(), sh.lower(), sh.swapcase()))
    if full or host is None or host[0] != b:
        return "'[%s]%s'!%s" % (bk['name'], sh.replace("'", "''"), ref)
    if host[1] != s or (st and st.random() < 0.25):
        q = _q(sh)
        if st and not q.startswith("'") and st.random() < 0.5:
            q = "'%s'" % sh
        return '%s!%s' % (q, ref)
    return ref


def formula_text(desc, t, host=None, full=False):
    k = t[0]
    if k == 'lit':
        v = t[1]
        if isinstance(v, bool):
            return 'TRUE' if v else 'FALSE'
        if isinstance(v, str):
            return '"%s"' % v.replace('"', '""')
        if float(v) == int(v):
            return '%d' % v if v >= 0 else '(%d)' % v
        return repr(float(v))
    if k == 'err':
        return t[1]
    if k == 'raw':              # verbatim text: [raw, in-sheet form, fully qualified form]
        return t[2] if full else t[1]
    if k in ('cell', 'rng', 'row', 'col', 'name'):
        return ref_text(desc, t, host, full)
    if k == 'bin':
        return '(%s%s%s)' % (formula_text(desc, t[2], host, full), t[1],
                             formula_text(desc, t[3], host, full))
    if k == 'call':
        return '%s(%s)' % (t[1], ','.join(
            formula_text(desc, a, host, full) for a in t[2]))
    raise ValueError(k)


def iter_cells(desc):
    for b, bk in enumerate(desc['books']):
        for s, sh in enumerate(bk['sheets']):
            for addr, cell in sh['cells'].items():
                yield b, s, addr, cell


def split_addr(addr):
    i = 0
    while addr[i].isalpha():
        i += 1
    col = 0
    for ch in addr[:i]:
        col = col * 26 + ord(ch) - 64
    return col, int(addr[i:])


def to_dict(desc, order=None):
    """from_dict rendering; order: optional permutation function on items."""
    items = []
    for b, s, addr, cell in iter_cells(desc):
        c, r = split_addr(addr)
        if 'arr' in cell:
            key = rect_key(desc, b, s, *cell['arr'])
        else:
            key = key_of(desc, b, s, c, r)
        if 'f' in cell:
            val = '=' + formula_text(desc, cell['f'], (b, s, c, r), full=True)
        else:
            val = cell['v']
            if isinstance(val, str) and val.startswith('#'):
                val = '=' + val
        items.append((key, val))
    for name, node in desc.get('names', {}).items():
        bk = desc['books'][node[1]]['name']
        if node[0] == 'val':
            txt = formula_text(desc, node[2], None, full=True)
        else:
            txt = ref_text(desc, node, None, full=True)
        items.append(("'[%s]'!%s" % (bk, name.upper()), '=' + txt))
    # explicit blank cells (dictionary form only: a file holds no such cell)
    items += sorted((desc.get('extra_dict') or {}).items())
    if order is not None:
        items = order(items)
    return dict(items)


def write_xlsx(desc, dirpath, sheet_order=None):
    """Writes one file per book; returns the list of paths (book order)."""
    import openpyxl
    from openpyxl.worksheet.formula import ArrayFormula
    from openpyxl.workbook.defined_name import DefinedName
    paths = []
    for b, bk in enumerate(desc['books']):
        wb = openpyxl.Workbook()
        wb.remove(wb.active)
        idx = list(range(len(bk['sheets'])))
        if sheet_order:
            idx = sheet_order(idx)
        for s in idx:
            sh = bk['sheets'][s]
            ws = wb.create_sheet(sh['name'])
            for addr, cell in sh['cells'].items():
                if 'arr' in cell:
                    c1, r1, c2, r2 = cell['arr']
                    ref = '%s%d:%s%d' % (col_name(c1), r1, col_name(c2), r2)
                    ws[addr] = ArrayFormula(
                        ref, '=' + formula_text(desc, cell['f'], (b, s)))
                    if desc.get('spill_cache'):
                        # a file saved by Excel keeps the last values of the
                        # other cells of the array as plain cell contents
                        for c in range(c1, c2 + 1):
                            for r in range(r1, r2 + 1):
                                a2 = '%s%d' % (col_name(c), r)
                                if a2 != addr and a2 not in sh['cells']:
                                    # numbers, error values and text alike
                                    ws[a2] = (987.0, '#N/A', 'stale', '#DIV/0!')[(c + r) % 4]
                elif 'f' in cell:
                    ws[addr] = '=' + formula_text(desc, cell['f'], (b, s))
                else:
                    ws[addr] = cell['v']
        if desc.get('empty_sheet'):
            wb.create_sheet('Empty %d' % b)      # a sheet without any content
        for name, node in desc.get('names', {}).items():
            if node[1] != b:
                continue
            if node[0] == 'val':
                txt = formula_text(desc, node[2], (b, -1))
            else:
                txt = ref_text(desc, _abs(node), (b, -1))
            wb.defined_names[name] = DefinedName(name, attr_text=txt)
        links = (desc.get('links') or {}).get(str(b))
        if links:
            # an external-link table: [1], [2], ... in formulas are positions in it
            from openpyxl.workbook.external_link.external import (
                ExternalLink, ExternalBook, ExternalSheetNames)
            from openpyxl.packaging.relationship import Relationship
            for target, sheets in links:
                ln = ExternalLink(externalBook=ExternalBook(
                    sheetNames=ExternalSheetNames(sheetName=list(sheets))))
                ln.file_link = Relationship(type='externalLinkPath', Target=target,
                                            TargetMode='External')
                wb._external_links.append(ln)
        path = os.path.join(dirpath, bk['name'])
        os.makedirs(os.path.dirname(path), exist_ok=True)
        wb.save(path)
        paths.append(path)
    return paths


def _abs(node):
    return node


# ---------------------------------------------------------------------------

def gen(rng, n_books=None, n_formulas=None, forms=None, whole_col=False,
        kinds='nntbe', err=None, value_names=True):
    """Random acyclic workbook description."""
    n_books = n_books or rng.choice((1, 1, 2))
    err = err or rng.choice(('#N/A', '#DIV/0!', '#VALUE!'))
    desc = {'books': [], 'names': {}, 'err': err}
    sheets_pool = list(SHEET_NAMES)
    const_cells = []     # (b, s, c, r) populated constants
    const_zone = []      # (b, s) sheets having a constants zone
    for b in range(n_books):
        bk = {'name': 'b%d.xlsx' % (b + 1), 'sheets': []}
        ns = rng.choice((2, 3)) if b == 0 else rng.choice((1, 2))
        names = ['Data'] + rng.sample(sheets_pool[1:], ns - 1)
        for s, nm in enumerate(names):
            sh = {'name': nm, 'cells': {}}
            bk['sheets'].append(sh)
        desc['books'].append(bk)
    # constants
    for b, bk in enumerate(desc['books']):
        for s, sh in enumerate(bk['sheets']):
            const_zone.append((b, s))
            extent = rng.choice((ROWS, ROWS, 5, 3))   # sheets of different extents
            for c in CONST_COLS:
                for r in range(1, extent + 1):
                    if rng.random() < 0.25:
                        continue        # unpopulated
                    k = rng.choice(kinds)
                    if k == 'n':
                        v = float(rng.randint(-9, 30))
                    elif k == 't':
                        v = rng.choice(('txt', 'Q', 'x y', 'b', 'B'))
                    elif k == 'b':
                        v = rng.random() < 0.5
                    else:
                        v = err if rng.random() < 0.15 else float(rng.randint(0, 9))
                    sh['cells']['%s%d' % (col_name(c), r)] = {'v': v}
                    const_cells.append((b, s, c, r))
    made = []      # formula cells created so far (b, s, c, r)
    cur = {'b': 0}

    def a_cell(numeric=False):
        t = rng.random()
        if made and t < 0.45:
            b, s, c, r = rng.choice(made)
        elif t < 0.9 and const_cells:
            b, s, c, r = rng.choice(const_cells)
        else:   # possibly unpopulated cell of a constants zone
            b, s = rng.choice(const_zone)
            c, r = rng.choice(CONST_COLS), rng.randint(1, ROWS + 2)
        return ['cell', b, s, c, r]

    def a_range():
        b, s = rng.choice(const_zone)
        t = rng.random()
        if t < 0.55:
            c1, c2 = sorted((rng.choice(CONST_COLS), rng.choice(CONST_COLS)))
            r1, r2 = sorted((rng.randint(1, ROWS + 1), rng.randint(1, ROWS + 1)))
            return ['rng', b, s, c1, r1, c2, r2]
        if t < 0.8:
            # whole rows only on the constants-only sheet 'Data' (index 0)
            r1, r2 = sorted((rng.randint(1, ROWS), rng.randint(1, ROWS)))
            if r2 - r1 > 1:
                r2 = r1 + 1
            return ['row', 0, 0, r1, r2]
        if whole_col:
            c1 = rng.choice(CONST_COLS)
            return ['col', 0, 0, c1, c1]
        c = rng.choice(CONST_COLS)
        return ['rng', b, s, c, 1, c, ROWS]

    def expr(depth):
        t = rng.random()
        if depth <= 0 or t < 0.2:
            if rng.random() < 0.25:
                return ['lit', float(rng.randint(0, 12))]
            if desc['names'] and rng.random() < 0.2:
                nm = rng.choice(sorted(desc['names']))
                if desc['names'][nm][0] in ('cell', 'val') and \
                        desc['names'][nm][1] == cur['b']:
                    return ['name', nm]
            return a_cell()
        if t < 0.5:
            op = rng.choice(('+', '-', '*', '+', '-', '&', '=', '<', '>=', '<>'))
            return ['bin', op, expr(depth - 1), expr(depth - 1)]
        if t < 0.8:
            f = rng.choice(('SUM', 'SUM', 'MIN', 'MAX', 'COUNT', 'COUNTA'))
            args = []
            for _ in range(rng.randint(1, 3)):
                u = rng.random()
                if u < 0.6:
                    args.append(a_range())
                elif u < 0.7 and [n for n in desc['names'] if desc['names'][n][1] == cur['b']]:
                    args.append(['name', rng.choice(sorted(
                        n for n in desc['names'] if desc['names'][n][1] == cur['b']))])
                elif u < 0.85:
                    args.append(a_cell())
                else:
                    args.append(['lit', float(rng.randint(0, 9))])
            return ['call', f, args]
        if t < 0.9:
            return ['call', 'IF', [
                ['bin', rng.choice(('<', '>', '=', '>=')), a_cell(), ['lit', float(rng.randint(0, 9))]],
                expr(depth - 1), expr(depth - 1)]]
        if t < 0.95:
            return ['call', 'ISBLANK', [a_cell()]]
        rg = a_range()
        while rg[0] != 'rng':
            rg = a_range()
        return ['call', 'INDEX', [rg, ['lit', float(rng.randint(1, rg[6] - rg[4] + 1))],
                                  ['lit', float(rng.randint(1, rg[5] - rg[3] + 1))]]]

    # defined names: cells and rectangles of constants zones
    for i in range(rng.randint(0, 3)):
        nm = rng.choice(('RATE', 'Total_1', 'myName', 'x.y', 'LIMIT'))
        if rng.random() < 0.3 and const_cells and value_names:
            b = rng.randrange(len(desc['books']))
            if rng.random() < 0.5:
                desc['names'][nm] = ['val', b, ['lit', float(rng.randint(1, 9))]]
            else:
                cc = rng.choice([c for c in const_cells if c[0] == b] or const_cells)
                desc['names'][nm] = ['val', cc[0], [
                    'bin', rng.choice('*+'), ['cell'] + list(cc),
                    ['lit', float(rng.randint(2, 5))]]]
        elif rng.random() < 0.5 and const_cells:
            b, s, c, r = rng.choice(const_cells)
            desc['names'][nm] = ['cell', b, s, c, r]
        else:
            rg = a_range()
            if rg[0] == 'rng':
                desc['names'][nm] = rg
    n_formulas = n_formulas or rng.randint(6, 16)
    slots, row_base = {}, {}
    for i in range(n_formulas):
        b = rng.randrange(len(desc['books']))
        s = rng.randrange(len(desc['books'][b]['sheets']))
        if s == 0 and rng.random() < 0.85:
            s = min(1, len(desc['books'][b]['sheets']) - 1)   # keep Data mostly constant
        if desc['books'][b]['sheets'][s]['name'] == 'Data' and len(
                desc['books'][b]['sheets']) > 1:
            s = 1
        k = slots.get((b, s), 0)
        cur['b'] = b
        if (b, s) not in row_base:
            # some sheets keep their formulas further down, so that array
            # formulas straddle the one-digit / two-digit row boundary
            row_base[(b, s)] = rng.choice((0, 0, 6))
        col, row = 5 + k // ROWS, 1 + row_base[(b, s)] + k % ROWS   # E.. formula zone
        cells = desc['books'][b]['sheets'][s]['cells']
        if rng.random() < 0.15 and (k % ROWS) + 3 <= ROWS:
            # array formula over 3 rows: range * k  or  range + cell
            src = a_range()
            tries = 0
            while not (src[0] == 'rng' and src[3] == src[5] and src[6] - src[4] == 2) \
                    and tries < 20:
                c = rng.choice(CONST_COLS)
                r1 = rng.randint(1, ROWS - 2)
                bb, ss = rng.choice(const_zone)
                src = ['rng', bb, ss, c, r1, c, r1 + 2]
                tries += 1
            f = ['bin', rng.choice('*+'), src, ['lit', float(rng.randint(1, 5))]]
            cells['%s%d' % (col_name(col), row)] = {'f': f, 'arr': [col, row, col, row + 2]}
            for j in range(3):
                made.append((b, s, col, row + j))
            slots[(b, s)] = k + 3
        else:
            cells['%s%d' % (col_name(col), row)] = {'f': expr(rng.randint(1, 3))}
            made.append((b, s, col, row))
            slots[(b, s)] = k + 1
    desc['formula_cells'] = [list(m) for m in made]
    return desc


def add_adjacent_arrays(rng, desc):
    """Two array formulas side by side (columns N, O) on the first sheet of the
    last book, and readers - on the last sheet of the first book - of a
    rectangle that lies over both without their anchor cells.  Returns the
    reader cells [(b, s, c, r)]."""
    bb = len(desc['books']) - 1
    r0 = rng.choice((1, 1, 7))
    cells = desc['books'][bb]['sheets'][0]['cells']
    cells['N%d' % r0] = {'f': ['bin', '*', ['rng', bb, 0, 1, 1, 1, 3], ['lit', 2.0]],
                         'arr': [14, r0, 14, r0 + 2]}
    cells['O%d' % r0] = {'f': ['bin', '+', ['rng', bb, 0, 2, 1, 2, 3], ['lit', 1.0]],
                         'arr': [15, r0, 15, r0 + 2]}
    s0 = len(desc['books'][0]['sheets']) - 1
    rd = desc['books'][0]['sheets'][s0]['cells']
    rd['M1'] = {'f': ['call', 'SUM', [['rng', bb, 0, 14, r0 + 1, 15, r0 + 2]]]}
    rd['M2'] = {'f': ['call', 'MAX', [['rng', bb, 0, 14, r0 + 2, 15, r0 + 2]]]}
    out = [(0, s0, 13, 1), (0, s0, 13, 2)]
    desc['formula_cells'] = list(desc.get('formula_cells', [])) + [list(k) for k in out] + [
        [bb, 0, 14, r0 + j] for j in range(3)] + [[bb, 0, 15, r0 + j] for j in range(3)]
    return out

