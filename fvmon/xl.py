"""Value model shared by all monitors (DESIGN.md 3.1)."""
import math
import numpy as np
import schedula as sh
from formulas.tokens.operand import XlError
from formulas.ranges import Ranges

ERRORS = ('#NULL!', '#DIV/0!', '#VALUE!', '#REF!', '#NAME?', '#NUM!', '#N/A')


def err(name):
    from formulas.tokens.operand import Error
    return Error.errors[name]


BLANK = ('blank',)


def unwrap(v):
    """Ranges -> array value; 0-d arrays / numpy scalars -> python scalars."""
    if isinstance(v, Ranges):
        v = v.value
    if isinstance(v, np.ndarray):
        if v.shape == ():
            v = v.item() if v.dtype != object else v.ravel()[0]
            return unwrap(v)
        return v
    if isinstance(v, np.generic):
        return v.item()
    return v


def scalar(v):
    """Like unwrap, additionally collapses 1-element arrays."""
    v = unwrap(v)
    if isinstance(v, np.ndarray) and v.size == 1:
        return unwrap(v.ravel()[0])
    return v


def kind(v):
    """Kind of a *scalar* python value."""
    if v is sh.EMPTY:
        return 'blank'
    if isinstance(v, XlError):
        return 'err'
    if isinstance(v, (bool, np.bool_)):
        return 'bool'
    if isinstance(v, (int, float, np.integer, np.floating)):
        try:
            f = float(v)
        except OverflowError:       # a python int no double can hold
            return 'foreign'
        if math.isnan(f) or math.isinf(f):
            return 'foreign'
        return 'num'
    if isinstance(v, sh.Token):
        return 'foreign'
    if isinstance(v, str):
        return 'text'
    return 'foreign'


def wellformed(v):
    """True when v is one Excel value or an array of Excel values."""
    v = unwrap(v)
    if isinstance(v, np.ndarray):
        if v.ndim > 2:
            return False
        return all(kind(unwrap(x)) != 'foreign' for x in v.ravel().tolist())
    return kind(v) != 'foreign'


def foreign_elements(v):
    v = unwrap(v)
    it = v.ravel().tolist() if isinstance(v, np.ndarray) else [v]
    return [x for x in it if kind(unwrap(x)) == 'foreign']


def canon(v):
    """Hashable, comparable, JSON-friendly canonical form."""
    v = unwrap(v)
    if isinstance(v, np.ndarray):
        if v.ndim == 1:
            return ('arr1',) + tuple(canon(x) for x in v.tolist())
        if v.ndim == 2:
            return ('arr',) + tuple(
                tuple(canon(x) for x in row) for row in v.tolist())
        return ('foreign', 'ndim%d' % v.ndim)
    k = kind(v)
    if k == 'blank':
        return BLANK
    if k == 'err':
        return ('err', str(v) if type(v).__name__ != 'XlCircular' else '#CIRC!')
    if k == 'bool':
        return ('bool', bool(v))
    if k == 'num':
        f = float(v)
        return ('num', f + 0.0)
    if k == 'text':
        return ('text', str(v))
    return ('foreign', type(v).__name__ + ':' + repr(v)[:80])


def num_close(a, b, rel=1e-12, abs_=1e-300):
    if a == b:
        return True
    return abs(a - b) <= max(abs_, rel * max(abs(a), abs(b)))


def same(a, b, rel=1e-12, exact=False):
    """Compare two canonical values."""
    if a == b:
        return True
    if not (isinstance(a, tuple) and isinstance(b, tuple) and a and b):
        return False
    if a[0] != b[0] or len(a) != len(b):
        return False
    if a[0] == 'num':
        return (not exact) and num_close(a[1], b[1], rel)
    if a[0] == 'arr1':
        return all(same(x, y, rel, exact) for x, y in zip(a[1:], b[1:]))
    if a[0] == 'arr':
        return all(
            len(r) == len(q) and all(
                same(x, y, rel, exact) for x, y in zip(r, q))
            for r, q in zip(a[1:], b[1:]))
    return False


def in_accept(obs, accept, rel=1e-12, exact=False):
    return any(same(obs, a, rel, exact) for a in accept)


def c_num(x):
    return ('num', float(x) + 0.0)


def c_text(s):
    return ('text', s)


def c_bool(b):
    return ('bool', bool(b))


def c_err(e):
    return ('err', e)


def show(c):
    """Short human-readable rendering of a canonical value."""
    if not isinstance(c, tuple) or not c:
        return repr(c)
    if c[0] == 'num':
        return repr(c[1])
    if c[0] == 'text':
        return '"%s"' % c[1]
    if c[0] == 'bool':
        return 'TRUE' if c[1] else 'FALSE'
    if c[0] == 'err':
        return c[1]
    if c[0] == 'blank':
        return '<blank>'
    if c[0] == 'arr':
        return '{' + ';'.join(','.join(show(x) for x in r) for r in c[1:]) + '}'
    if c[0] == 'arr1':
        return '[' + ','.join(show(x) for x in c[1:]) + ']'
    return repr(c)


def jsonable(o):
    """Best-effort conversion of witnesses to JSON."""
    if isinstance(o, dict):
        return {str(k): jsonable(v) for k, v in o.items()}
    if isinstance(o, (list, tuple, set, frozenset)):
        return [jsonable(v) for v in o]
    if isinstance(o, float):
        if math.isnan(o) or math.isinf(o):
            return repr(o)
        return o
    if isinstance(o, (str, int, bool)) or o is None:
        if isinstance(o, sh.Token):
            return str(o)
        return o
    if isinstance(o, np.ndarray):
        return jsonable(o.tolist())
    if isinstance(o, np.generic):
        return jsonable(o.item())
    return repr(o)[:200]
