"""One shard: imports the tree under test, attaches probes, runs the property
module's `run(spec, ctx)` and writes what the monitors observed."""
import os
import sys
import json
import time
import random
import hashlib
import shutil
import logging
import traceback
import collections

from . import bootstrap


class Ctx:
    """Collects what the monitors of one shard observed."""

    def __init__(self, spec, outf):
        self.spec = spec
        self.outf = outf
        self.evaluations = 0
        self.distinct = set()
        self.distinct_bulk = 0
        self.counters = collections.Counter()
        self.sets = collections.defaultdict(set)
        self.maxes = {}
        self.samples = []
        self.violations = collections.OrderedDict()
        self.inconclusive = []
        self.extra = {}
        self.rng = random.Random(
            'fvmon/%s/%s/%s' % (spec.get('seed', 0), spec.get('kind'),
                                spec.get('shard', 0)))
        self._sample_every = 1
        self._progress = None
        self._t_last = 0.0
        self.t0 = time.time()
        self.deadline = spec.get('budget_s')

    # -- bookkeeping -----------------------------------------------------
    def time_left(self):
        if self.deadline is None:
            return True
        return (time.time() - self.t0) < self.deadline

    def case(self, key=None, nontrivial=True, n=1):
        """Register one executed case; key identifies it for distinctness."""
        self.evaluations += n
        if nontrivial and key is not None:
            if not isinstance(key, (str, bytes)):
                key = json.dumps(key, default=repr, sort_keys=True)
            if isinstance(key, str):
                key = key.encode()
            self.distinct.add(int.from_bytes(
                hashlib.blake2b(key, digest_size=7).digest(), 'big'))

    def case_bulk(self, n, distinct=None):
        """n cases that are distinct by construction (exhaustive sweeps)."""
        self.evaluations += n
        self.distinct_bulk += n if distinct is None else distinct

    def count(self, name, n=1):
        self.counters[name] += n

    def see(self, name, value):
        self.sets[name].add(value)

    def maximum(self, name, value):
        if value > self.maxes.get(name, value - 1):
            self.maxes[name] = value

    def sample(self, obj, force=False):
        if force or len(self.samples) < 4:
            self.samples.append(_j(obj))

    def open_case(self, case):
        """Call event: written before the real code is invoked, so a shard
        killed by the watchdog leaves the hanging case behind."""
        now = time.time()
        self._progress = case
        if now - self._t_last > 0.5:
            self._t_last = now
            try:
                with open(self.outf + '.progress', 'w') as f:
                    json.dump(_j(case), f, default=repr)
            except (OSError, TypeError, ValueError):
                pass

    def violation(self, sig, witness, mech=None):
        """sig: mechanism signature (dedupe key); witness must hold a
        replayable `case`."""
        v = self.violations.get(sig)
        if v is None:
            if len(self.violations) >= 400:
                self.counters['violations.dropped'] += 1
                return
            self.violations[sig] = {
                'sig': sig, 'mech': mech, 'witness': _j(witness), 'count': 1,
                'hashseed': int(os.environ.get('PYTHONHASHSEED', '0') or 0),
            }
        else:
            v['count'] += 1

    def note_inconclusive(self, reason):
        self.inconclusive.append(reason)

    def dump(self):
        with open(self.outf, 'w') as f:
            json.dump({
                'evaluations': self.evaluations,
                'distinct': sorted(self.distinct),
                'distinct_bulk': self.distinct_bulk,
                'counters': self.counters,
                'sets': {k: sorted(map(_j, v), key=repr)
                         for k, v in self.sets.items()},
                'maxes': self.maxes,
                'samples': self.samples,
                'violations': list(self.violations.values()),
                'inconclusive': self.inconclusive,
                'extra': self.extra,
            }, f, default=repr)


def _j(o):
    from . import xl
    return xl.jsonable(o)


def scratch_dir():
    d = os.environ.get('FVMON_SHARD_DIR') or os.path.join(
        bootstrap.SCRATCH_ROOT, 'w%d' % os.getpid())
    os.makedirs(d, exist_ok=True)
    return d


def main():
    prop, specf, outf = sys.argv[1:4]
    bootstrap.init_worker()
    logging.getLogger('schedula').setLevel(logging.CRITICAL)
    with open(specf) as f:
        spec = json.load(f)
    import importlib
    mod = importlib.import_module('fvmon.props.' + prop.lower())
    ctx = Ctx(spec, outf)
    rc = 0
    try:
        if spec.get('kind') == '__replay__':
            w = spec['witness']
            case = w['witness']['case'] if 'witness' in w else w['case']
            mod.check_case(case, ctx)
            print(json.dumps({'replayed': case, 'violations': [
                v['sig'] for v in ctx.violations.values()]}, default=repr)[:3000],
                  file=sys.stderr)
        else:
            mod.run(spec, ctx)
    except BaseException:
        traceback.print_exc()
        ctx.note_inconclusive('shard %s crashed: %s' % (
            spec.get('kind'), traceback.format_exc()[-500:].replace('\n', ' | ')))
        rc = 3
    finally:
        ctx.dump()
        shutil.rmtree(os.environ.get('FVMON_SHARD_DIR', '/nonexistent'),
                      ignore_errors=True)
    sys.exit(rc)


if __name__ == '__main__':
    main()
