"""Probes attached to the real objects from outside (DESIGN.md 2.1).

Contracts *record and return True*: they never raise into the observed code.
"""
import threading
import numpy as np

from . import xl
from .ref import ranges as rr

_state = threading.local()


class Sink:
    """Receives contract verdicts; bound to the shard's Ctx by the workload."""

    def __init__(self, ctx):
        self.ctx = ctx
        self.case = None          # replayable case of the running workload
        self.tag = ''             # property prefix for signatures

    def count(self, name, n=1):
        self.ctx.count(name, n)

    def violation(self, sig, witness):
        w = dict(witness)
        w.setdefault('case', self.case)
        self.ctx.violation(sig, w)


SINK = None


def set_sink(sink):
    global SINK
    SINK = sink


def _names(rects):
    return [rr.spell(r) for r in rects]


# ---------------------------------------------------------------------------
# P-ranges: contracts on Ranges operations
# ---------------------------------------------------------------------------

def _post_and(self, other, result):
    s = SINK
    if s is None:
        return True
    s.count('contract.and')
    a, b, o = rr.rects_of(self), rr.rects_of(other), rr.rects_of(result)
    exp = rr.ref_and(a, b)
    if not rr.same_multiset(o, exp):
        kind = 'set' if not rr.same_set(o, exp) else 'multiplicity'
        s.violation('ranges.and:%s:%s' % (kind, _shape_class(a, b)), {
            'op': 'and', 'a': _names(a), 'b': _names(b),
            'observed': _names(o), 'accepted': [_names(exp)]})
    return True


def _post_or(self, other, result):
    s = SINK
    if s is None:
        return True
    s.count('contract.or')
    a, b, o = rr.rects_of(self), rr.rects_of(other), rr.rects_of(result)
    if o != a + b:
        s.violation('ranges.or:areas:%s' % _shape_class(a, b), {
            'op': 'or', 'a': _names(a), 'b': _names(b),
            'observed': _names(o), 'accepted': [_names(a + b)]})
    return True


def _post_sub(self, other, result):
    s = SINK
    if s is None:
        return True
    s.count('contract.sub')
    a, b, o = rr.rects_of(self), rr.rects_of(other), rr.rects_of(result)
    g = rr.Grid(a, b, o)
    exp = set(g.multiset(a)) - set(g.multiset(b))
    got = g.multiset(o)
    if set(got) != exp:
        s.violation('ranges.sub:set:%s' % _shape_class(a, b), {
            'op': 'sub', 'a': _names(a), 'b': _names(b),
            'observed': _names(o), 'accepted': ['cells of a not in b']})
    elif any(v != 1 for v in got.values()):
        s.violation('ranges.sub:duplicates:%s' % _shape_class(a, b), {
            'op': 'sub', 'a': _names(a), 'b': _names(b),
            'observed': _names(o), 'accepted': ['each cell once']})
    return True


def _post_simplify(self, result):
    s = SINK
    if s is None:
        return True
    s.count('contract.simplify')
    a, o = rr.rects_of(self), rr.rects_of(result)
    g = rr.Grid(a, o)
    exp, got = set(g.multiset(a)), g.multiset(o)
    if set(got) != exp:
        lost = exp - set(got)
        s.violation('ranges.simplify:%s' % ('lost' if lost else 'gained'), {
            'op': 'simplify', 'a': _names(a), 'observed': _names(o),
            'accepted': ['same cell set']})
    elif any(v != 1 for v in got.values()):
        s.violation('ranges.simplify:overlap', {
            'op': 'simplify', 'a': _names(a), 'observed': _names(o),
            'accepted': ['pairwise disjoint areas']})
    return True


def _shape_class(a, b):
    if len(a) == 1 and len(b) == 1:
        return rr.relation(a[0], b[0])
    return 'multi'


def _wrap_add(orig):
    """`:` either returns the bounding rectangle or raises InvalidRangeError
    (operands on different sheets); a plain wrapper because icontract does not
    check after a raise."""
    from formulas.errors import InvalidRangeError

    def __add__(self, other):
        s = SINK
        if s is None:
            return orig(self, other)
        a, b = rr.rects_of(self), rr.rects_of(other)
        exp = rr.bounding(a + b)
        try:
            result = orig(self, other)
        except InvalidRangeError:
            s.count('contract.add')
            if exp is not None:
                s.violation('ranges.add:raised:%s' % _shape_class(a, b), {
                    'op': 'add', 'a': _names(a), 'b': _names(b),
                    'observed': 'InvalidRangeError',
                    'accepted': [_names([exp])]})
            raise
        s.count('contract.add')
        o = rr.rects_of(result)
        if exp is None:
            s.violation('ranges.add:no-error:other-sheet', {
                'op': 'add', 'a': _names(a), 'b': _names(b),
                'observed': _names(o), 'accepted': ['error']})
        elif o != [exp]:
            s.violation('ranges.add:rect:%s' % _shape_class(a, b), {
                'op': 'add', 'a': _names(a), 'b': _names(b),
                'observed': _names(o), 'accepted': [_names([exp])]})
        return result

    __add__.__wrapped__ = orig
    return __add__


def _piece_lookup(values):
    """cell -> canonical value, or None when pieces disagree."""
    pieces = []
    for name, (rng, val) in values.items():
        pieces.append((rr.rect_of(rng), val))
    return pieces


def _cell_value(pieces, cell):
    s, c, r = cell
    found = []
    for (ps, c1, r1, c2, r2), val in pieces:
        if ps == s and c1 <= c <= c2 and r1 <= r <= r2:
            try:
                found.append(xl.canon(val[r - r1, c - c1]))
            except IndexError:
                return None
    if not found:
        return None
    if any(f != found[0] for f in found[1:]):
        return None
    return found[0]


def _check_value(self, result):
    """`.value`: 0 areas -> #NULL!; 1 area -> position by position; several
    areas -> every cell once per covering area (multiset)."""
    s = SINK
    if s is None or getattr(_state, 'busy', False):
        return
    _state.busy = True
    try:
        areas = rr.rects_of(self)
        if sum((a[3] - a[1] + 1) * (a[4] - a[2] + 1) for a in areas) > 4096:
            s.count('contract.value.skipped-large')
            return
        if not areas:
            s.count('contract.value')
            if xl.canon(result) != ('arr', (xl.c_err('#NULL!'),)):
                s.violation('ranges.value:empty-not-null', {
                    'op': 'value', 'a': [], 'observed': xl.show(xl.canon(result)),
                    'accepted': ['{#NULL!}']})
            return
        pieces = _piece_lookup(self.values)
        exp = []
        for a in areas:
            rows = []
            for r in range(a[2], a[4] + 1):
                row = []
                for c in range(a[1], a[3] + 1):
                    v = _cell_value(pieces, (a[0], c, r))
                    if v is None:
                        s.count('contract.value.undetermined')
                        return
                    row.append(v)
                rows.append(tuple(row))
            exp.append(rows)
        s.count('contract.value')
        obs = xl.canon(result)
        if len(areas) == 1:
            want = ('arr',) + tuple(exp[0])
            if obs != want:
                s.violation('ranges.value:single-area:%s' % (
                    'shape' if _shape(obs) != _shape(want) else 'content'), {
                    'op': 'value', 'a': _names(areas),
                    'pieces': _names([p[0] for p in pieces]),
                    'observed': xl.show(obs), 'accepted': [xl.show(want)]})
        else:
            flat = sorted((x for rows in exp for row in rows for x in row), key=repr)
            got = sorted(obs[1:], key=repr) if obs[0] == 'arr1' else None
            if got != flat:
                s.violation('ranges.value:multi-area', {
                    'op': 'value', 'a': _names(areas),
                    'pieces': _names([p[0] for p in pieces]),
                    'observed': xl.show(obs),
                    'accepted': ['multiset ' + ','.join(map(xl.show, flat))]})
    finally:
        _state.busy = False


def _shape(c):
    if c[0] == 'arr':
        return (len(c) - 1, len(c[1]) if len(c) > 1 else 0)
    if c[0] == 'arr1':
        return (len(c) - 1,)
    return ()


_installed = {}


def install_ranges_contracts():
    """Idempotent.  Uses icontract for the pure postconditions."""
    if _installed.get('ranges'):
        return
    import icontract
    from formulas.ranges import Ranges

    class _Never(Exception):
        pass

    Ranges.__and__ = icontract.ensure(_post_and, error=_Never)(Ranges.__and__)
    Ranges.__or__ = icontract.ensure(_post_or, error=_Never)(Ranges.__or__)
    Ranges.__sub__ = icontract.ensure(_post_sub, error=_Never)(Ranges.__sub__)
    Ranges.simplify = icontract.ensure(_post_simplify, error=_Never)(
        Ranges.simplify)
    Ranges.__add__ = _wrap_add(Ranges.__add__)

    orig_value = Ranges.value.fget

    def value(self):
        cached = self._value
        res = orig_value(self)
        import schedula as sh
        if cached is sh.NONE:
            _check_value(self, res)
        else:
            _check_cache(self, res, orig_value)
        return res

    Ranges.value = property(value)
    _installed['ranges'] = True


def _check_cache(self, res, orig_value):
    """Cache coherence (C07): a memoised value equals recomputation."""
    s = SINK
    if s is None or getattr(_state, 'busy', False):
        return
    _state.busy = True
    try:
        import schedula as sh
        from formulas.ranges import Ranges
        s.count('contract.value.cache')
        try:
            fresh = orig_value(Ranges(self.ranges, self.values))
        except Exception:
            return
        if xl.canon(fresh) != xl.canon(res):
            s.violation('ranges.value:stale-cache', {
                'op': 'value', 'a': _names(rr.rects_of(self)),
                'observed': xl.show(xl.canon(res)),
                'accepted': [xl.show(xl.canon(fresh))]})
    finally:
        _state.busy = False
