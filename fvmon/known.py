"""Known findings: committed list + matchers by mechanism (DESIGN.md 3.4).

Only entries with status "open" suppress, and only the witnesses their matcher
accepts.  Matchers look at the *mechanism* recorded in the witness (operator /
function name, argument kinds, observed class, accepted class, syntactic
feature) - never at seeds, hashes or particular random values.  Nothing here
writes the file.
"""
import os
import json

from . import bootstrap

PATH = os.path.join(bootstrap.VERIF, 'known_findings.json')

MATCHERS = {}


def matcher(name):
    def deco(f):
        MATCHERS[name] = f
        return f
    return deco


def load():
    if not os.path.exists(PATH):
        return {}
    with open(PATH) as f:
        data = json.load(f)
    return {d['id']: d for d in data.get('findings', [])}


def classify(prop, violation, findings=None):
    findings = load() if findings is None else findings
    w = violation.get('witness') or {}
    for fid, f in findings.items():
        if f.get('property') != prop or f.get('status') != 'open':
            continue
        m = MATCHERS.get(f.get('matcher'))
        if m is None:
            continue
        try:
            if m(w, violation):
                return fid
        except Exception:
            continue
    return None


# Matchers are registered by importing the module that owns them.
from . import known_matchers  # noqa: E402,F401
