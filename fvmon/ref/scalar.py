"""Reference scalar semantics of the 12 binary and 3 unary operators.

Every rule returns an *accept-set* of canonical values (xl.canon form).
Rules are singletons only where the property text states them or Excel's
behaviour is certain; see DESIGN.md 3.2.
Operands are python values: float/int, bool, str, sh.EMPTY, XlError.
"""
import re
import math
import schedula as sh
from formulas.tokens.operand import XlError

from .. import xl

ARITH = ('+', '-', '*', '/', '^')
CMP = ('=', '<>', '<', '>', '<=', '>=')
VALUE, DIV, NUM = xl.c_err('#VALUE!'), xl.c_err('#DIV/0!'), xl.c_err('#NUM!')

# plain decimal or exponent text, optionally padded with blanks
_NUMTEXT = re.compile(r'^ *[+-]?(\d+\.?\d*|\.\d+)([eE][+-]?\d+)? *$')


def kind(v):
    return xl.kind(v)


def to_number(v):
    """-> float or the canonical #VALUE!"""
    k = kind(v)
    if k == 'num':
        return float(v)
    if k == 'bool':
        return 1.0 if v else 0.0
    if k == 'blank':
        return 0.0
    if k == 'text':
        if _NUMTEXT.match(v):
            f = float(v)
            if math.isfinite(f):
                return f
        return VALUE
    raise ValueError(k)


def _first_error(*vals):
    for v in vals:
        if isinstance(v, XlError):
            return xl.canon(v)
    return None


def _fin(x):
    if isinstance(x, complex) or not math.isfinite(x):
        return NUM
    return xl.c_num(x)


def arith(op, a, b):
    """Accept-set for a binary arithmetic operator."""
    ea, eb = isinstance(a, XlError), isinstance(b, XlError)
    if ea:
        return {xl.canon(a)}
    x = to_number(a)
    if eb:
        # the left operand's own coercion failure may come first
        return {xl.canon(b)} | ({VALUE} if x == VALUE else set())
    y = to_number(b)
    if x == VALUE or y == VALUE:
        return {VALUE}
    try:
        if op == '+':
            return {_fin(x + y)}
        if op == '-':
            return {_fin(x - y)}
        if op == '*':
            return {_fin(x * y)}
        if op == '/':
            if y == 0:
                return {DIV}
            return {_fin(x / y)}
        if op == '^':
            if x == 0 and y == 0:
                return {NUM}
            if x == 0 and y < 0:
                return {DIV}
            if x < 0 and y != int(y):
                acc = {NUM}
                inv = 1.0 / y
                if abs(inv - round(inv)) < 1e-9 and int(round(inv)) % 2:
                    acc.add(xl.c_num(-((-x) ** y)))   # Excel's real odd root
                return acc
            return {_fin(x ** y)}
    except OverflowError:
        return {NUM}
    except ZeroDivisionError:
        return {DIV}
    raise ValueError(op)


def unary(op, a):
    if len(op) > 2 and op[0] == 'u':      # a run of signs: `--x`, `- -x`, `+-x`
        n = op.count('-')
        if n and n % 2 == 0:              # a number again, not the identity
            if isinstance(a, XlError):
                return {xl.canon(a)}
            x = to_number(a)
            return {VALUE} if x == VALUE else {_fin(0.0 + x)}
        op = 'u-' if n else 'u+'
    if op == 'u+':
        if a is sh.EMPTY:         # a formula result shows a blank as 0
            return {xl.BLANK, xl.c_num(0)}
        return {xl.canon(a)}      # identity on every kind
    if isinstance(a, XlError):
        return {xl.canon(a)}
    x = to_number(a)
    if x == VALUE:
        return {VALUE}
    if op == 'u-':
        return {_fin(0.0 - x)}
    if op == '%':
        return {_fin(x / 100.0)}
    raise ValueError(op)


def display(v):
    """General-format text of a value, or None when not certain."""
    k = kind(v)
    if k == 'text':
        return v
    if k == 'bool':
        return 'TRUE' if v else 'FALSE'
    if k == 'blank':
        return ''
    if k == 'num':
        f = float(v)
        if f == int(f) and abs(f) < 1e15:
            return '%d' % f
        if f == int(f) or abs(f) < 1e-9:
            m, e = ('%.14E' % f).split('E')
            m = m.rstrip('0').rstrip('.')
            if len(m.lstrip('-').replace('.', '')) <= 6:
                return '%sE%s%02d' % (m, e[0], int(e[1:]))
            return None
        s = repr(f)
        if 'e' not in s and len(s.replace('-', '').replace('.', '')) <= 12:
            return s
        return None
    return None


def concat(a, b):
    e = _first_error(a, b)
    if e is not None:
        return {e}
    da, db = display(a), display(b)
    if da is None or db is None:
        return None          # not judged
    return {xl.c_text(da + db)}


def _cmp_key(v, other):
    """(type rank, comparable) with blank taking the other side's neutral."""
    k = kind(v)
    if k == 'blank':
        ko = kind(other)
        if ko == 'text':
            return (1, '')
        if ko == 'bool':
            return (2, False)
        return (0, 0.0)
    if k == 'num':
        return (0, float(v))
    if k == 'text':
        return (1, v.casefold())
    if k == 'bool':
        return (2, bool(v))
    raise ValueError(k)


def compare(op, a, b):
    e = _first_error(a, b)
    if e is not None:
        return {e}
    ka, kb = _cmp_key(a, b), _cmp_key(b, a)
    r = {'=': ka == kb, '<>': ka != kb, '<': ka < kb, '>': ka > kb,
         '<=': ka <= kb, '>=': ka >= kb}[op]
    return {xl.c_bool(r)}


def text_order_certain(a, b):
    """Ordering of two different texts is only judged for plain ASCII
    letters/digits/blank strings (collation of other characters is
    locale dependent)."""
    for v in (a, b):
        if kind(v) == 'text' and not re.match(r'^[A-Za-z0-9 ]*$', v):
            return False
    return True


_ODD_SPACE = re.compile(r'[\t\n\r\x0b\x0c\xa0]')


def accept(op, *args):
    if op in ARITH or op in ('u-', '%') or (op[0] == 'u' and '-' in op):
        # numeric text padded with white space other than blanks (line feed,
        # tab, NBSP): whether Excel coerces it is not part of the statement
        for a in args:
            if kind(a) == 'text' and _ODD_SPACE.search(a) and \
                    _NUMTEXT.match(_ODD_SPACE.sub(' ', a)):
                return None
    if op in ARITH:
        return arith(op, *args)
    if op == '&':
        return concat(*args)
    if op in CMP:
        return compare(op, *args)
    return unary(op, *args)
