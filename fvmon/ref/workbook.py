"""Reference evaluation of a workbook description (gen.workbooks format) by
memoised recursion over the description's own trees - the library's parser is
never involved.  Values are canonical (xl.canon form); ranges are lists of
rows of canonical values.  Only the vocabulary with indisputable semantics
is supported; anything else returns UNKNOWN and is not judged.
"""
import schedula as sh

from .. import xl
from . import scalar as rs
from ..gen import workbooks as gw

UNKNOWN = ('unknown',)
ERR_FUNCS = ('IFERROR', 'ISERROR', 'ISERR', 'ISNA', 'ISNUMBER', 'ISTEXT',
             'ERROR.TYPE')
ERR_TYPES = {'#NULL!': 1, '#DIV/0!': 2, '#VALUE!': 3, '#REF!': 4, '#NAME?': 5,
             '#NUM!': 6, '#N/A': 7}
MAXC, MAXR = 16384, 1048576


class Evaluator:
    def __init__(self, desc, overrides=None, lazy=False):
        self.desc = desc
        self.memo = {}
        self.overrides = overrides or {}      # (b, s, c, r) -> canonical value
        self.owner = {}                       # array member -> anchor
        self.cells = {}
        self.bounds = {}
        for b, s, addr, cell in gw.iter_cells(desc):
            c, r = gw.split_addr(addr)
            self.cells[(b, s, c, r)] = cell
            if 'arr' in cell:
                c1, r1, c2, r2 = cell['arr']
                for rr in range(r1, r2 + 1):
                    for cc in range(c1, c2 + 1):
                        self.owner[(b, s, cc, rr)] = (b, s, c, r)
        for (b, s, c, r) in list(self.cells) + list(self.owner):
            m = self.bounds.setdefault((b, s), [0, 0])
            m[0], m[1] = max(m[0], c), max(m[1], r)
        self.stack = set()

    # -- cells -----------------------------------------------------------
    def populated(self, key):
        return key in self.cells or key in self.owner

    def raw(self, key):
        """Value stored in / computed by the cell, BLANK if unpopulated."""
        if key in self.overrides:
            return self.overrides[key]
        if key in self.memo:
            return self.memo[key]
        if key in self.stack:
            raise RecursionError('cycle at %r' % (key,))
        self.stack.add(key)
        try:
            v = self._raw(key)
        finally:
            self.stack.discard(key)
        self.memo[key] = v
        return v

    def _raw(self, key):
        if key in self.owner:
            anchor = self.owner[key]
            arr = self.array_value(anchor)
            if arr is UNKNOWN:
                return UNKNOWN
            c1, r1 = self.cells[anchor]['arr'][:2]
            return arr[key[3] - r1][key[2] - c1]
        cell = self.cells.get(key)
        if cell is None:
            return xl.BLANK
        if 'f' in cell:
            v = self.eval(cell['f'], key)
            if v is UNKNOWN or isinstance(v, list):
                return UNKNOWN
            if v == xl.BLANK:
                return xl.c_num(0)        # a formula shows a blank as 0
            return v
        v = cell['v']
        if isinstance(v, str) and v.startswith('#'):
            return xl.c_err(v)
        return xl.canon(v)

    def array_value(self, anchor):
        k = ('arr',) + anchor
        if k in self.memo:
            return self.memo[k]
        cell = self.cells[anchor]
        v = self.eval(cell['f'], anchor)
        c1, r1, c2, r2 = cell['arr']
        if v is UNKNOWN:
            out = UNKNOWN
        elif isinstance(v, list):
            if len(v) != r2 - r1 + 1 or len(v[0]) != c2 - c1 + 1:
                out = UNKNOWN                 # fitting belongs to C05
            else:
                out = [[xl.c_num(0) if x == xl.BLANK else x for x in row]
                       for row in v]
        else:
            out = [[v] * (c2 - c1 + 1) for _ in range(r1, r2 + 1)]
        self.memo[k] = out
        return out

    # -- references --------------------------------------------------------
    def rect(self, b, s, c1, r1, c2, r2):
        """Rows of canonical values; clipped to the populated bounds plus one
        representative blank row/column for whole rows / columns."""
        rows = []
        for r in range(r1, r2 + 1):
            row = []
            for c in range(c1, c2 + 1):
                v = self.raw((b, s, c, r))
                if v is UNKNOWN:
                    return UNKNOWN
                row.append(v)
            rows.append(row)
        return rows

    def resolve(self, node):
        """ref node -> ('cell', key) or ('rect', b, s, c1, r1, c2, r2, clipped)"""
        k = node[0]
        if k == 'name':
            target = self.desc['names'][node[1]]
            if target[0] == 'val':
                return ('value', self.eval(target[2], None))
            return self.resolve(target)
        if k == 'cell':
            return ('cell', tuple(node[1:5]))
        if k == 'rng':
            return ('rect',) + tuple(node[1:7])
        mb = self.bounds.get((node[1], node[2]), [1, 1])
        if k == 'row':
            # cells beyond the populated bounds are blank: aggregation-neutral
            return ('rect', node[1], node[2], 1, node[3], mb[0] + 1, node[4])
        if k == 'col':
            return ('rect', node[1], node[2], node[3], 1, node[4], mb[1] + 1)
        raise ValueError(k)

    # -- expressions -------------------------------------------------------
    def eval(self, t, host):
        k = t[0]
        if k == 'lit':
            return xl.canon(t[1])
        if k == 'err':
            return xl.c_err(t[1])
        if k == 'raw':
            return UNKNOWN
        if k in ('cell', 'rng', 'row', 'col', 'name'):
            r = self.resolve(t)
            if r[0] == 'value':
                return r[1]
            if r[0] == 'cell':
                return self.raw(r[1])
            return self.rect(*r[1:])
        if k == 'bin':
            a, b = self.eval(t[2], host), self.eval(t[3], host)
            for sub, val in ((t[2], a), (t[3], b)):
                if sub[0] == 'call' and val == xl.BLANK:
                    # whether a function hands an empty cell on as a blank or
                    # as 0 decides FALSE=IF(TRUE,<empty>): not prescribed here
                    return UNKNOWN
            return self.binop(t[1], a, b)
        if k == 'call':
            return self.call(t[1], t[2], host)
        raise ValueError(k)

    def binop(self, op, a, b):
        if a is UNKNOWN or b is UNKNOWN:
            return UNKNOWN
        la, lb = isinstance(a, list), isinstance(b, list)
        if la or lb:
            if la and lb:
                if len(a) != len(b) or len(a[0]) != len(b[0]):
                    return UNKNOWN
                out = [[self.binop(op, x, y) for x, y in zip(ra, rb)]
                       for ra, rb in zip(a, b)]
            elif la:
                out = [[self.binop(op, x, b) for x in ra] for ra in a]
            else:
                out = [[self.binop(op, a, y) for y in rb] for rb in b]
            if any(x is UNKNOWN for row in out for x in row):
                return UNKNOWN
            return out
        pa, pb = _py(a), _py(b)
        if op in ('<', '>', '<=', '>=') and a[0] == 'text' and b[0] == 'text' \
                and not rs.text_order_certain(pa, pb):
            return UNKNOWN
        if op == '&' and any(
                isinstance(x, float) and x and not 1e-9 <= abs(x) < 1e15 for x in (pa, pb)):
            return UNKNOWN      # rendering of such numbers is C02's clause (open finding)
        acc = rs.accept(op, pa, pb)
        if acc is None or len(acc) != 1:
            return UNKNOWN
        return next(iter(acc))

    def flat(self, args, host):
        """Flatten aggregation arguments -> list of (value, referenced?)"""
        out = []
        for a in args:
            if a[0] in ('cell', 'rng', 'row', 'col', 'name'):
                r = self.resolve(a)
                if r[0] == 'value':
                    if r[1] is UNKNOWN or isinstance(r[1], list):
                        return UNKNOWN
                    out.append((r[1], False))
                elif r[0] == 'cell':
                    v = self.raw(r[1])
                    if v is UNKNOWN:
                        return UNKNOWN
                    out.append((v, True))
                else:
                    rows = self.rect(*r[1:])
                    if rows is UNKNOWN:
                        return UNKNOWN
                    out.extend((v, True) for row in rows for v in row)
            else:
                v = self.eval(a, host)
                if v is UNKNOWN:
                    return UNKNOWN
                if isinstance(v, list):
                    out.extend((x, True) for row in v for x in row)
                else:
                    out.append((v, False))
        return out

    def call(self, name, args, host):
        if name in ('SUM', 'MIN', 'MAX', 'COUNT', 'COUNTA'):
            items = self.flat(args, host)
            if items is UNKNOWN:
                return UNKNOWN
            if name == 'COUNTA':
                return xl.c_num(sum(1 for v, _ in items if v != xl.BLANK))
            nums, errs = [], []
            for v, referenced in items:
                if referenced and v[0] == 'text' and _floatable(v[1]):
                    return UNKNOWN   # numeric text inside references: C12
                if v[0] == 'err':
                    errs.append(v)
                elif v[0] == 'num':
                    nums.append(v[1])
                elif not referenced:
                    if v[0] == 'bool':
                        nums.append(1.0 if v[1] else 0.0)
                    elif v[0] == 'text':
                        n = rs.to_number(v[1])
                        if n == rs.VALUE:
                            if name != 'COUNT':
                                errs.append(rs.VALUE)
                        else:
                            nums.append(n)
                    elif v[0] == 'blank':
                        pass
            if name == 'COUNT':
                return xl.c_num(len(nums))
            if errs:
                if len(set(errs)) > 1:
                    return UNKNOWN            # which error wins is not prescribed
                return errs[0]
            if name == 'SUM':
                return rs._fin(sum(nums))
            if name == 'MIN':
                return xl.c_num(min(nums) if nums else 0)
            return xl.c_num(max(nums) if nums else 0)
        if name == 'IF':
            c = self.eval(args[0], host)
            if c is UNKNOWN or isinstance(c, list):
                return UNKNOWN
            if c[0] == 'err':
                return c
            if c[0] == 'blank':
                sel = False
            elif c[0] in ('bool', 'num'):
                sel = bool(c[1])
            else:
                return UNKNOWN
            branch = args[1] if sel else (args[2] if len(args) > 2 else None)
            if branch is None:
                return xl.c_bool(False)
            v = self.eval(branch, host)
            if isinstance(v, list):
                return UNKNOWN
            return v
        if name in ERR_FUNCS:
            v = self.eval(args[0], host)
            if v is UNKNOWN or isinstance(v, list):
                return UNKNOWN
            if name == 'IFERROR':
                if v[0] != 'err':
                    return v
                w = self.eval(args[1], host)
                return UNKNOWN if isinstance(w, list) else w
            if name == 'ISERROR':
                return xl.c_bool(v[0] == 'err')
            if name == 'ISERR':
                return xl.c_bool(v[0] == 'err' and v[1] != '#N/A')
            if name == 'ISNA':
                return xl.c_bool(v[0] == 'err' and v[1] == '#N/A')
            if name == 'ISNUMBER':
                return xl.c_bool(v[0] == 'num')
            if name == 'ISTEXT':
                return xl.c_bool(v[0] == 'text')
            if v[0] != 'err':
                return xl.c_err('#N/A')
            return xl.c_num(ERR_TYPES[v[1]])
        if name == 'ISBLANK':
            r = self.resolve(args[0])
            if r[0] != 'cell':
                return UNKNOWN
            v = self.raw(r[1])
            if v is UNKNOWN:
                return UNKNOWN
            return xl.c_bool(v == xl.BLANK)
        if name == 'INDEX':
            r = self.resolve(args[0])
            if r[0] != 'rect':
                return UNKNOWN
            rows = self.rect(*r[1:])
            i, j = self.eval(args[1], host), self.eval(args[2], host)
            if rows is UNKNOWN or i is UNKNOWN or j is UNKNOWN:
                return UNKNOWN
            try:
                v = rows[int(i[1]) - 1][int(j[1]) - 1]
            except (IndexError, TypeError):
                return UNKNOWN
            return xl.c_num(0) if v == xl.BLANK else v
        return UNKNOWN

    # -- whole solution ----------------------------------------------------
    def solution(self):
        """(b, s, c, r) -> canonical value for every populated cell."""
        out = {}
        for key in list(self.cells) + list(self.owner):
            try:
                out[key] = self.raw(key)
            except RecursionError:
                out[key] = UNKNOWN
        return out


def _py(c):
    if c[0] in ('num', 'text', 'bool'):
        return c[1]
    if c[0] == 'blank':
        return sh.EMPTY
    if c[0] == 'err':
        return xl.err(c[1])
    raise ValueError(c)


def _floatable(t):
    try:
        float(t)
        return True
    except ValueError:
        return False
