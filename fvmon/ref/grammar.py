"""Independent evaluator of formula trees (gen.formulas node format).

eval_tree returns a canonical value (xl.canon form) or None when the value is
not certain under the reference rules (then only the text clause of C01 is
judged for that tree).  Operators use ref.scalar; a result is certain only
when its accept-set is a singleton.
"""
import schedula as sh

from .. import xl
from . import scalar as rs


def _py(c):
    """canonical -> python operand for ref.scalar"""
    if c[0] == 'num':
        return c[1]
    if c[0] == 'text':
        return c[1]
    if c[0] == 'bool':
        return c[1]
    if c[0] == 'blank':
        return sh.EMPTY
    if c[0] == 'err':
        return xl.err(c[1])
    raise ValueError(c)


def _plain_number(c):
    """Numbers whose text rendering is beyond dispute (C02 owns the rest)."""
    if c[0] != 'num':
        return True
    f = abs(c[1])
    return f == 0 or 1e-4 <= f < 1e15


def _single(acc):
    if acc is None or len(acc) != 1:
        return None
    return next(iter(acc))


def eval_tree(t, env):
    """env: REF (upper) -> python value."""
    k = t[0]
    if k == 'num':
        return xl.c_num(float(t[1]))
    if k == 'str':
        return xl.c_text(t[1])
    if k == 'bool':
        return xl.c_bool(t[1])
    if k == 'err':
        return xl.c_err(t[1].upper())
    if k == 'ref':
        return xl.canon(env[t[1].upper()])
    if k == 'empty':
        return None
    if k == 'bin':
        a, b = eval_tree(t[2], env), eval_tree(t[3], env)
        if a is None or b is None or a[0] in ('arr', 'arr1') or b[0] in ('arr', 'arr1'):
            return None
        op = t[1]
        if op == '&' and not (_plain_number(a) and _plain_number(b)):
            return None
        if op in ('<', '>', '<=', '>=') and a[0] == 'text' and b[0] == 'text' \
                and not rs.text_order_certain(a[1], b[1]):
            return None
        return _single(rs.accept(op, _py(a), _py(b)))
    if k == 'un':
        a = eval_tree(t[2], env)
        if a is None or a[0] in ('arr', 'arr1'):
            return None
        if a[0] == 'blank' and t[1] == '+':
            return None
        return _single(rs.accept('u' + t[1], _py(a)))
    if k == 'pct':
        a = eval_tree(t[1], env)
        if a is None or a[0] in ('arr', 'arr1'):
            return None
        return _single(rs.accept('%', _py(a)))
    if k == 'arr':
        rows = []
        for row in t[1]:
            r = [eval_tree(x, env) for x in row]
            if any(x is None for x in r):
                return None
            rows.append(tuple(r))
        return ('arr',) + tuple(rows)
    if k == 'call':
        return _call(t[1].upper(), t[2], env)
    raise ValueError(k)


def _call(name, args, env):
    vals = []
    for a in args:
        if a[0] == 'empty':
            vals.append('EMPTY')
        else:
            vals.append(eval_tree(a, env))
    if any(v is None for v in vals):
        return None
    if name == 'IF':
        if any(v != 'EMPTY' and v[0] in ('arr', 'arr1') for v in vals):
            return None      # IF broadcasts over array arguments
        c = vals[0]
        if c == 'EMPTY' or c[0] not in ('bool', 'num'):
            return None
        sel = bool(c[1])
        if sel:
            r = vals[1] if len(vals) > 1 else xl.c_bool(True)
        else:
            r = vals[2] if len(vals) > 2 else xl.c_bool(False)
        if r == 'EMPTY' or r[0] in ('arr', 'arr1', 'blank'):
            return None
        return r
    if name in ('SUM', 'MAX', 'MIN'):
        nums = []
        for v in vals:
            if v == 'EMPTY':
                nums.append(0.0)
            elif v[0] == 'num':
                nums.append(v[1])
            elif v[0] == 'arr':
                for row in v[1:]:
                    for x in row:
                        if x[0] == 'num':
                            nums.append(x[1])
                        else:
                            return None   # non-numbers in arrays: C12
            else:
                return None   # typed text / logicals / errors: C12 territory
        if name == 'SUM':
            r = sum(nums)
        elif name == 'MAX':
            r = max(nums) if nums else 0.0
        else:
            r = min(nums) if nums else 0.0
        return rs._fin(r)
    if name == 'CONCATENATE':
        out = ''
        for v in vals:
            if v == 'EMPTY' or v[0] in ('arr', 'arr1', 'err'):
                return None
            if not _plain_number(v):
                return None
            d = rs.display(_py(v))
            if d is None:
                return None
            out += d
        return xl.c_text(out)
    return None


def operators_of(t, out=None):
    """Operator names (the 15 of the property) appearing in the tree."""
    out = [] if out is None else out
    k = t[0]
    if k == 'bin':
        out.append(t[1])
        operators_of(t[2], out)
        operators_of(t[3], out)
    elif k == 'un':
        out.append('u' + t[1])
        operators_of(t[2], out)
    elif k == 'pct':
        out.append('%')
        operators_of(t[1], out)
    elif k == 'call':
        for a in t[2]:
            operators_of(a, out)
    return out
