"""Reference definitions of the core worksheet functions (C12).

accept(name, args) -> set of canonical values | None (not judged).
An argument is a dict: {'t': 'lit'|'ref'|'rng'|'arr', 'v': value}
  lit: a value typed into the formula; ref: a single-cell reference (value may
  be blank); rng: a range reference (rows of values); arr: an array literal.
Every rule is either stated by the property ("statement") or Excel-certain;
anything else returns None or a widened set.
"""
import math
from decimal import Decimal, ROUND_HALF_UP, ROUND_DOWN, ROUND_UP, ROUND_FLOOR, ROUND_CEILING
import schedula as sh
from formulas.tokens.operand import XlError

from .. import xl
from . import scalar as rs

VALUE, DIV, NUM, NA = (xl.c_err(e) for e in ('#VALUE!', '#DIV/0!', '#NUM!', '#N/A'))
T, F_ = xl.c_bool(True), xl.c_bool(False)


def k(v):
    return xl.kind(v)


def is_err(v):
    return isinstance(v, XlError)


def scalar_of(a):
    """Value of a scalar-position argument (lit / ref); None for rng / arr."""
    if a['t'] in ('lit', 'ref'):
        return a['v']
    return None


def first_error(vals):
    for v in vals:
        if is_err(v):
            return xl.canon(v)
    return None


def num(v):
    """Coercion of a scalar argument of a maths / text-position function."""
    return rs.to_number(v)           # float or VALUE


def items(a):
    """Flattened (value, referenced?) items of an aggregation argument."""
    if a['t'] == 'lit':
        return [(a['v'], False)]
    if a['t'] == 'ref':
        return [(a['v'], True)]
    return [(x, True) for row in a['v'] for x in row]


def dec(x):
    return Decimal(repr(float(x)))


def fin(x):
    return rs._fin(x)


# -- logical ---------------------------------------------------------------------

def to_logical(v, referenced=False):
    """-> True/False, VALUE, an error, or None (skip / not certain)."""
    kk = k(v)
    if kk == 'err':
        return xl.canon(v)
    if kk == 'bool':
        return bool(v)
    if kk == 'num':
        return float(v) != 0
    if kk == 'blank':
        return False
    if kk == 'text':
        if v.upper() in ('TRUE', 'FALSE'):
            return None
        return VALUE
    return None


def f_if(args):
    c = scalar_of(args[0])
    if c is None and args[0]['t'] not in ('lit', 'ref'):
        return None
    lg = to_logical(c)
    if lg is None:
        return None
    if lg == VALUE or isinstance(lg, tuple):
        return {lg}
    if lg:
        br = args[1]
    elif len(args) > 2:
        br = args[2]
    else:
        return {F_}
    v = scalar_of(br)
    if br['t'] not in ('lit', 'ref'):
        return None
    if v is sh.EMPTY:
        return {xl.c_num(0), xl.BLANK}
    return {xl.canon(v)}


def f_ifs(args):
    for i in range(0, len(args) - 1, 2):
        if args[i]['t'] not in ('lit', 'ref') or args[i + 1]['t'] not in ('lit', 'ref'):
            return None
        lg = to_logical(args[i]['v'])
        if lg is None:
            return None
        if lg == VALUE or isinstance(lg, tuple):
            return {lg}
        if lg:
            v = args[i + 1]['v']
            if v is sh.EMPTY:
                return {xl.c_num(0), xl.BLANK}
            return {xl.canon(v)}
    return {NA}


def _eq(a, b):
    ka, kb = k(a), k(b)
    if ka == 'blank' or kb == 'blank':
        return None
    if ka != kb:
        return False
    if ka == 'text':
        return a.casefold() == b.casefold()
    if ka == 'num':
        return float(a) == float(b)
    return a == b


def f_switch(args):
    if any(a['t'] not in ('lit', 'ref') for a in args):
        return None
    e = args[0]['v']
    if is_err(e):
        return {xl.canon(e)}
    rest = args[1:]
    pairs, default = rest, None
    if len(rest) % 2:
        pairs, default = rest[:-1], rest[-1]
    for i in range(0, len(pairs), 2):
        kv = pairs[i]['v']
        if is_err(kv):
            return {xl.canon(kv)}
        q = _eq(e, kv)
        if q is None:
            return None
        if q:
            v = pairs[i + 1]['v']
            return None if v is sh.EMPTY else {xl.canon(v)}
    if default is None:
        return {NA}
    return None if default['v'] is sh.EMPTY else {xl.canon(default['v'])}


def f_and(args, op):
    vals = []
    errs = {xl.canon(v) for a in args for v, _r in items(a) if is_err(v)}
    typed_text = any(k(v) == 'text' and not r and v.upper() not in ('TRUE', 'FALSE')
                     for a in args for v, r in items(a))
    if errs:
        return errs | ({VALUE} if typed_text else set())
    for a in args:
        for v, referenced in items(a):
            if is_err(v):
                return {xl.canon(v)}
            kk = k(v)
            if referenced:
                if kk in ('bool', 'num'):
                    vals.append(bool(v) if kk == 'bool' else float(v) != 0)
                continue                  # text and blanks inside references are skipped
            lg = to_logical(v)
            if lg is None:
                return None
            if lg == VALUE:
                return {VALUE}
            if kk == 'blank':
                continue
            vals.append(lg)
    if not vals:
        return {VALUE}
    if op == 'AND':
        return {xl.c_bool(all(vals))}
    if op == 'OR':
        return {xl.c_bool(any(vals))}
    return {xl.c_bool(sum(vals) % 2 == 1)}


def f_not(args):
    if args[0]['t'] not in ('lit', 'ref'):
        return None
    lg = to_logical(args[0]['v'])
    if lg is None:
        return None
    if lg == VALUE or isinstance(lg, tuple):
        return {lg}
    return {xl.c_bool(not lg)}


def f_iferror(args, only_na=False):
    if any(a['t'] not in ('lit', 'ref') for a in args):
        return None
    v, alt = args[0]['v'], args[1]['v']
    hit = is_err(v) and (not only_na or str(v) == '#N/A')
    r = alt if hit else v
    if r is sh.EMPTY:
        return {xl.c_num(0), xl.BLANK}
    return {xl.canon(r)}


# -- information -------------------------------------------------------------------

def f_is(name, args):
    a = args[0]
    if a['t'] not in ('lit', 'ref'):
        return None
    v = a['v']
    kk = k(v)
    if name == 'ISNUMBER':
        return {xl.c_bool(kk == 'num')}
    if name == 'ISTEXT':
        return {xl.c_bool(kk == 'text')}
    if name == 'ISNONTEXT':
        return {xl.c_bool(kk != 'text')}
    if name == 'ISBLANK':
        return {xl.c_bool(kk == 'blank')}
    if name == 'ISLOGICAL':
        return {xl.c_bool(kk == 'bool')}
    if name == 'ISERROR':
        return {xl.c_bool(kk == 'err')}
    if name == 'ISERR':
        return {xl.c_bool(kk == 'err' and str(v) != '#N/A')}
    if name == 'ISNA':
        return {xl.c_bool(kk == 'err' and str(v) == '#N/A')}
    if name in ('ISEVEN', 'ISODD'):
        if kk == 'err':
            return {xl.canon(v)}
        if kk == 'bool':
            return {VALUE}
        x = num(v)
        if x == VALUE:
            return {VALUE}
        t = math.trunc(x)
        even = t % 2 == 0
        return {xl.c_bool(even if name == 'ISEVEN' else not even)}
    return None


# -- aggregation ---------------------------------------------------------------------

REF_NUMTEXT_COUNTS = [False]    # alternative semantics used by a known finding


def numbers(args, count_mode=False):
    """-> (list of numbers, set of possible errors) typed-vs-referenced."""
    nums, errs = [], set()
    for a in args:
        for v, referenced in items(a):
            kk = k(v)
            if kk == 'err':
                if count_mode:
                    continue
                errs.add(xl.canon(v))
                continue
            if kk == 'num':
                nums.append(float(v))
            elif referenced:
                if REF_NUMTEXT_COUNTS[0] and kk == 'text' and \
                        rs.to_number(v) != VALUE:
                    nums.append(rs.to_number(v))
                continue
            elif kk == 'bool':
                nums.append(1.0 if v else 0.0)
            elif kk == 'text':
                x = rs.to_number(v)
                if x == VALUE:
                    if count_mode:
                        continue
                    errs.add(VALUE)
                    continue
                nums.append(x)
    return nums, errs


def f_agg(name, args):
    if name == 'COUNTA':
        return {xl.c_num(sum(1 for a in args for v, _ in items(a) if v is not sh.EMPTY))}
    if name == 'COUNTBLANK':
        if args[0]['t'] not in ('rng', 'ref'):
            return None
        return {xl.c_num(sum(1 for v, _ in items(args[0]) if v is sh.EMPTY or v == ''))}
    if name == 'COUNT':
        nums, _ = numbers(args, count_mode=True)
        return {xl.c_num(len(nums))}
    nums, errs = numbers(args)
    if errs:
        return errs          # which one surfaces first is not prescribed
    n = len(nums)
    try:
        if name == 'SUM':
            return {fin(math.fsum(nums))}
        if name == 'PRODUCT':
            p = 1.0
            for x in nums:
                p *= x
            return {fin(p if nums else 0.0)}
        if name == 'SUMSQ':
            return {fin(math.fsum(x * x for x in nums))}
        if name == 'AVERAGE':
            return {DIV} if not n else {fin(math.fsum(nums) / n)}
        if name == 'MIN':
            return {xl.c_num(min(nums) if nums else 0)}
        if name == 'MAX':
            return {xl.c_num(max(nums) if nums else 0)}
        if name == 'MEDIAN':
            if not n:
                return {NUM}
            s = sorted(nums)
            return {xl.c_num(s[n // 2] if n % 2 else (s[n // 2 - 1] + s[n // 2]) / 2)}
        if name in ('STDEV', 'STDEV.S', 'VAR', 'VAR.S', 'STDEVP', 'STDEV.P', 'VARP', 'VAR.P'):
            pop = name in ('STDEVP', 'STDEV.P', 'VARP', 'VAR.P')
            if n < (1 if pop else 2):
                return {DIV}
            m = math.fsum(nums) / n
            var = math.fsum((x - m) ** 2 for x in nums) / (n if pop else n - 1)
            return {fin(var if name.startswith('VAR') else math.sqrt(var))}
    except OverflowError:
        return {NUM}
    return None


def f_large(name, args):
    if args[1]['t'] not in ('lit', 'ref'):
        return None
    kv = args[1]['v']
    vals = [v for v, _ in items(args[0])]
    e = first_error(vals + [kv])
    if e:
        return {e}
    nums = sorted(float(v) for v in vals if k(v) == 'num')
    kk = num(kv)
    if kk == VALUE:
        return {VALUE}
    if kk != int(kk):
        return None
    kk = int(kk)
    if kk < 1 or kk > len(nums):
        return {NUM}
    return {xl.c_num(nums[-kk] if name == 'LARGE' else nums[kk - 1])}


def f_sumproduct(args):
    shapes = set()
    mats = []
    for a in args:
        if a['t'] in ('lit', 'ref'):
            rows = [[a['v']]]
        else:
            rows = a['v']
        shapes.add((len(rows), len(rows[0])))
        mats.append(rows)
    e = first_error(x for m in mats for row in m for x in row)
    if len(shapes) > 1:
        return {VALUE, e} if e else {VALUE}
    if e:
        return {e}
    r, c = next(iter(shapes))
    tot = 0.0
    for i in range(r):
        for j in range(c):
            p = 1.0
            for m in mats:
                v = m[i][j]
                if REF_NUMTEXT_COUNTS[0] and k(v) == 'text' and rs.to_number(v) != VALUE:
                    v = rs.to_number(v)
                p *= float(v) if k(v) == 'num' else 0.0
            tot += p
    return {fin(tot)}


# -- mathematics -------------------------------------------------------------------------

def _nums(args):
    """Scalar numeric arguments -> list of floats, or an accept-set."""
    out, errs = [], set()
    for a in args:
        if a['t'] not in ('lit', 'ref'):
            return None
        v = a['v']
        if is_err(v):
            errs.add(xl.canon(v))
            continue
        x = num(v)
        if x == VALUE:
            errs.add(VALUE)
            continue
        out.append(x)
    return errs or out


def _round(x, d, mode):
    q = Decimal(1).scaleb(-d)
    v = dec(abs(x)).quantize(q, rounding=mode)
    v = float(v)
    return -v if x < 0 else v


def f_math(name, args):
    xs = _nums(args)
    if not isinstance(xs, list):
        return xs
    x = xs[0]
    try:
        if name == 'ABS':
            return {xl.c_num(abs(x))}
        if name == 'INT':
            return {xl.c_num(math.floor(x))}
        if name == 'SIGN':
            return {xl.c_num((x > 0) - (x < 0))}
        if name == 'SQRT':
            return {NUM} if x < 0 else {xl.c_num(math.sqrt(x))}
        if name == 'EXP':
            return {fin(math.exp(x))}
        if name == 'LN':
            return {NUM} if x <= 0 else {xl.c_num(math.log(x))}
        if name == 'LOG10':
            return {NUM} if x <= 0 else {xl.c_num(math.log10(x))}
        if name == 'LOG':
            b = xs[1] if len(xs) > 1 else 10.0
            if x <= 0 or b <= 0:
                return {NUM}
            if b == 1:
                return {DIV, NUM}
            return {xl.c_num(math.log(x) / math.log(b))}
        if name == 'POWER':
            return rs.arith('^', x, xs[1])
        if name == 'MOD':
            n, d = x, xs[1]
            if d == 0:
                return {DIV}
            if (n * 4) != int(n * 4) or (d * 4) != int(d * 4) or abs(n / d) > 1e13:
                return None      # not exact in binary: Excel's digits are not certain
            r = n - d * math.floor(n / d)
            return {xl.c_num(r)}
        if name in ('ROUND', 'ROUNDUP', 'ROUNDDOWN', 'TRUNC'):
            d = xs[1] if len(xs) > 1 else 0.0
            d = math.trunc(d)
            if abs(d) > 12 or abs(x) >= 1e14:
                return None
            mode = {'ROUND': ROUND_HALF_UP, 'ROUNDUP': ROUND_UP,
                    'ROUNDDOWN': ROUND_DOWN, 'TRUNC': ROUND_DOWN}[name]
            return {xl.c_num(_round(x, d, mode))}
        if name in ('CEILING', 'FLOOR'):
            s = xs[1]
            if s == 0:
                if name == 'CEILING':
                    return {xl.c_num(0)}
                return {DIV} if x != 0 else None
            if x > 0 and s < 0:
                return {NUM}
            q = dec(x) / dec(s)
            if name == 'CEILING':
                m = q.to_integral_value(ROUND_CEILING)
            else:
                m = q.to_integral_value(ROUND_FLOOR)
            return {xl.c_num(float(m * dec(s)))}
        if name == 'EVEN':
            v = math.ceil(abs(x) / 2.0) * 2
            return {xl.c_num(-v if x < 0 else v)}
        if name == 'ODD':
            v = math.ceil(abs(x))
            if v % 2 == 0:
                v += 1
            return {xl.c_num(-v if x < 0 else v)}
        if name in ('SIN', 'COS', 'TAN', 'ATAN', 'SINH', 'COSH', 'TANH'):
            if abs(x) > 1e6:
                return None
            return {fin(getattr(math, name.lower())(x))}
        if name in ('ASIN', 'ACOS'):
            if abs(x) > 1:
                return {NUM}
            return {xl.c_num(getattr(math, name.lower())(x))}
    except OverflowError:
        return {NUM}
    except ValueError:
        return {NUM}
    return None


# -- text ---------------------------------------------------------------------------------

def disp(v):
    """Text of a scalar argument of a text function (None if not certain)."""
    return rs.display(v)


def _int_arg(v, default=None):
    """Position / count argument -> int, VALUE, error"""
    if v is None:
        return default
    if is_err(v):
        return xl.canon(v)
    x = num(v)
    if x == VALUE:
        return VALUE
    return math.trunc(x)


def f_text(name, args):
    if any(a['t'] not in ('lit', 'ref') for a in args):
        if name not in ('CONCAT', 'TEXTJOIN'):
            return None
    vals = [a['v'] if a['t'] in ('lit', 'ref') else None for a in args]
    if name in ('CONCAT', 'CONCATENATE'):
        flat = [v for a in args for v, _ in items(a)]
        e = first_error(flat)
        if e:
            return {e}
        ds = [disp(v) for v in flat]
        if any(d is None for d in ds):
            return None
        return {xl.c_text(''.join(ds))}
    if name == 'TEXTJOIN':
        if args[0]['t'] not in ('lit', 'ref') or args[1]['t'] not in ('lit', 'ref'):
            return None
        flat = [v for a in args[2:] for v, _ in items(a)]
        e = first_error([args[0]['v'], args[1]['v']] + flat)
        if e:
            return {e}
        ig = to_logical(args[1]['v'])
        if ig is None or ig == VALUE:
            return None if ig is None else {VALUE}
        d0 = disp(args[0]['v'])
        ds = [disp(v) for v in flat]
        if d0 is None or any(d is None for d in ds):
            return None
        if ig:
            ds = [d for d in ds if d != '']
        return {xl.c_text(d0.join(ds))}
    e = first_error(vals)
    if e:
        return {e}
    t = disp(vals[0])
    if t is None:
        return None
    if name == 'LEN':
        return {xl.c_num(len(t))}
    if name == 'UPPER':
        return {xl.c_text(t.upper())}
    if name == 'LOWER':
        return {xl.c_text(t.lower())}
    if name == 'TRIM':
        return {xl.c_text(' '.join(x for x in t.split(' ') if x))}
    if name in ('LEFT', 'RIGHT'):
        n = _int_arg(vals[1] if len(vals) > 1 else None, 1)
        if n == VALUE:
            return {VALUE}
        if n < 0:
            return {VALUE}
        return {xl.c_text(t[:n] if name == 'LEFT' else (t[-n:] if n else ''))}
    if name == 'MID':
        s, n = _int_arg(vals[1]), _int_arg(vals[2])
        if VALUE in (s, n):
            return {VALUE}
        if s < 1 or n < 0:
            return {VALUE}
        return {xl.c_text(t[s - 1:s - 1 + n])}
    if name in ('FIND', 'SEARCH'):
        w = disp(vals[1])
        if w is None:
            return None
        s = _int_arg(vals[2] if len(vals) > 2 else None, 1)
        if s == VALUE:
            return {VALUE}
        if s < 1 or s > len(w) + (1 if t == '' else 0) and s > len(w):
            return {VALUE}
        if name == 'FIND':
            i = w.find(t, s - 1)
        else:
            i = _wild_search(t, w, s - 1)
            if i is None:
                return None
        return {VALUE} if i < 0 else {xl.c_num(i + 1)}
    if name == 'REPLACE':
        s, n = _int_arg(vals[1]), _int_arg(vals[2])
        new = disp(vals[3])
        if new is None:
            return None
        if VALUE in (s, n):
            return {VALUE}
        if s < 1 or n < 0:
            return {VALUE}
        return {xl.c_text(t[:s - 1] + new + t[s - 1 + n:])}
    if name == 'SUBSTITUTE':
        old, new = disp(vals[1]), disp(vals[2])
        if old is None or new is None:
            return None
        if len(vals) > 3:
            inst = _int_arg(vals[3])
            if inst == VALUE:
                return {VALUE}
            if inst < 1:
                return {VALUE}
        else:
            inst = None
        if old == '':
            return {xl.c_text(t)}
        if inst is None:
            return {xl.c_text(t.replace(old, new))}
        pos, i = -1, 0
        for _ in range(inst):
            pos = t.find(old, i)
            if pos < 0:
                return {xl.c_text(t)}
            i = pos + len(old)
        return {xl.c_text(t[:pos] + new + t[pos + len(old):])}
    if name == 'VALUE':
        v = vals[0]
        kk = k(v)
        if kk == 'num':
            return {xl.c_num(v)}
        if kk == 'bool':
            return {VALUE}
        if kk == 'blank':
            return {xl.c_num(0)}
        x = rs.to_number(v)
        if x == VALUE:
            if any(ch.isdigit() for ch in v):
                return None          # date / currency / percent / thousands text
            return {VALUE}
        return {xl.c_num(x)}
    return None


def _wild_search(pat, text, start):
    """SEARCH: case-insensitive, ? * wildcards, ~ escape."""
    import re
    rx, i = '', 0
    while i < len(pat):
        ch = pat[i]
        if ch == '~' and i + 1 < len(pat) and pat[i + 1] in '?*~':
            rx += re.escape(pat[i + 1])
            i += 2
            continue
        if ch == '?':
            rx += '.'
        elif ch == '*':
            rx += '.*?'
        else:
            rx += re.escape(ch)
        i += 1
    m = re.compile(rx, re.I | re.S).search(text, start)
    return m.start() if m else -1


LOGICAL = {'IF': f_if, 'IFS': f_ifs, 'SWITCH': f_switch, 'NOT': f_not}
AGG = ('SUM', 'PRODUCT', 'SUMSQ', 'AVERAGE', 'MIN', 'MAX', 'COUNT', 'COUNTA',
       'COUNTBLANK', 'MEDIAN', 'STDEV', 'STDEV.S', 'VAR', 'VAR.S', 'STDEVP',
       'STDEV.P', 'VARP', 'VAR.P')
MATH = ('ABS', 'INT', 'SIGN', 'SQRT', 'EXP', 'LN', 'LOG', 'LOG10', 'POWER', 'MOD',
        'ROUND', 'ROUNDUP', 'ROUNDDOWN', 'TRUNC', 'CEILING', 'FLOOR', 'EVEN', 'ODD',
        'SIN', 'COS', 'TAN', 'ASIN', 'ACOS', 'ATAN', 'SINH', 'COSH', 'TANH')
TEXT = ('LEN', 'LEFT', 'RIGHT', 'MID', 'UPPER', 'LOWER', 'TRIM', 'CONCAT',
        'CONCATENATE', 'FIND', 'SEARCH', 'REPLACE', 'SUBSTITUTE', 'TEXTJOIN', 'VALUE')
INFO = ('ISNUMBER', 'ISTEXT', 'ISNONTEXT', 'ISBLANK', 'ISLOGICAL', 'ISERR',
        'ISERROR', 'ISNA', 'ISEVEN', 'ISODD')
ALL = tuple(LOGICAL) + ('AND', 'OR', 'XOR', 'IFERROR', 'IFNA') + INFO + AGG + \
    ('LARGE', 'SMALL', 'SUMPRODUCT') + MATH + TEXT


def accept(name, args):
    if name in LOGICAL:
        return LOGICAL[name](args)
    if name in ('AND', 'OR', 'XOR'):
        return f_and(args, name)
    if name == 'IFERROR':
        return f_iferror(args)
    if name == 'IFNA':
        return f_iferror(args, True)
    if name in INFO:
        return f_is(name, args)
    if name in AGG:
        return f_agg(name, args)
    if name in ('LARGE', 'SMALL'):
        return f_large(name, args)
    if name == 'SUMPRODUCT':
        return f_sumproduct(args)
    if name in MATH:
        return f_math(name, args)
    if name in TEXT:
        return f_text(name, args)
    return None
