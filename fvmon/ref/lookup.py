"""Linear-scan reference definitions of the lookup and criteria functions.

Values are python values (float, str, bool, XlError, sh.EMPTY); results are
sets of canonical values (xl.canon form) - the accept-set - or None when the
definition does not decide the case.
"""
import re
import itertools
import schedula as sh

from .. import xl
from . import scalar as rs

NA, REF, VALUE, DIV0 = (xl.c_err(e) for e in ('#N/A', '#REF!', '#VALUE!', '#DIV/0!'))


def tid(v):
    k = xl.kind(v)
    return {'num': 'n', 'text': 't', 'bool': 'b', 'err': 'e', 'blank': 'z'}[k]


def _eq(a, b):
    if tid(a) != tid(b):
        return False
    if tid(a) == 't':
        return a.casefold() == b.casefold()
    return a == b


def _le(a, b):
    """a <= b within one type (text case-insensitive)."""
    if tid(a) == 't':
        return a.casefold() <= b.casefold()
    return a <= b


def wildcard(pattern):
    """Excel pattern (?, *, ~ escape) -> compiled regex, or None if plain."""
    if not any(ch in pattern for ch in '*?'):
        return None
    out, i = [], 0
    while i < len(pattern):
        ch = pattern[i]
        if ch == '~' and i + 1 < len(pattern) and pattern[i + 1] in '*?~':
            out.append(re.escape(pattern[i + 1]))
            i += 2
            continue
        out.append('.' if ch == '?' else '.*' if ch == '*' else re.escape(ch))
        i += 1
    return re.compile('^%s$' % ''.join(out), re.I | re.S)


def has_escape(pattern):
    return '~' in pattern


def unescape(pattern):
    """The text a pattern without wildcards stands for (~~ ~* ~? -> ~ * ?)."""
    return re.sub(r'~([~*?])', r'\1', pattern)


# -- MATCH / INDEX / LOOKUP ---------------------------------------------------

def match_pos(key, vec, mt):
    """1-based position or None (not found)."""
    if mt == 0:
        rx = wildcard(key) if tid(key) == 't' else None
        if rx is None and tid(key) == 't':
            key = unescape(key)
        for i, v in enumerate(vec):
            if rx is not None:
                if tid(v) == 't' and rx.match(v):
                    return i + 1
            elif _eq(v, key):
                return i + 1
        return None
    pos = None
    for i, v in enumerate(vec):
        if tid(v) != tid(key):
            continue
        if (mt > 0 and _le(v, key)) or (mt < 0 and _le(key, v)):
            pos = i + 1
    return pos


def match(key, vec, mt=1):
    p = match_pos(key, vec, mt)
    return {NA} if p is None else {xl.c_num(p)}


def _elem(v):
    c = xl.canon(v)
    return xl.c_num(0) if c == xl.BLANK else c


def index(table, r, c=None):
    rows, cols = len(table), len(table[0])
    if c is None:                       # vector form
        if rows != 1 and cols != 1:
            return None
        n = int(r)
        if n < 0:
            return {VALUE}
        if n == 0:
            return None
        if rows == 1:
            return {_elem(table[0][n - 1])} if n <= cols else {REF}
        return {_elem(table[n - 1][0])} if n <= rows else {REF}
    r, c = int(r), int(c)
    if r < 0 or c < 0:
        return {VALUE}
    if r == 0 or c == 0:
        return None                     # whole row / column: array result
    if r > rows or c > cols:
        return {REF}
    return {_elem(table[r - 1][c - 1])}


def lookup(key, lv, rv=None):
    p = match_pos(key, lv, 1)
    if p is None:
        return {NA}
    src = lv if rv is None else rv
    if p > len(src):
        return None
    return {_elem(src[p - 1])}


def vlookup(key, table, col, rl=True, horizontal=False):
    if horizontal:
        table = [list(x) for x in zip(*table)]
    ncols = len(table[0])
    col = int(col)
    keys = [row[0] for row in table]
    p = match_pos(key, keys, 1 if rl else 0)
    if col < 1:
        return {VALUE}
    if col > ncols:
        return {REF} if p is not None else {REF, NA}
    if p is None:
        return {NA}
    return {_elem(table[p - 1][col - 1])}


# -- criteria -----------------------------------------------------------------

_CRIT = re.compile(r'^(>=|<=|<>|>|<|=)?(.*)$', re.S)
YES, NO, EITHER = 'yes', 'no', 'either'
BLANK = type('Blank', (), {'__repr__': lambda self: 'BLANK'})()


def parse_criterion(crit):
    """-> (op, operand python value) or None when not decided here."""
    k = tid(crit)
    if k in ('n', 'b', 'e'):
        return '=', crit
    if k != 't':
        return None
    op, rest = _CRIT.match(crit).groups()
    op = op or '='
    if rest == '':
        if op in ('<>', '=') and crit != '':
            return op, BLANK            # bare operator: the (not) blank cells
        return None                     # other blank-matching criteria: not judged
    if rest.upper() in xl.ERRORS:         # an error value: not a pattern, not ordered
        return (op, xl.err(rest.upper())) if op in ('=', '<>') else None
    n = rs.to_number(rest)
    if n != rs.VALUE:
        return op, n
    if rest.upper() in ('TRUE', 'FALSE'):
        return op, rest.upper() == 'TRUE'
    return op, rest


def member(cell, op, x):
    """Does the cell satisfy the criterion - compared within its own type."""
    if x is BLANK:
        # `=`: the blank cells; `<>`: Excel counts every cell holding something,
        # the statement (own type, i.e. `<>""`) the non-empty texts
        if tid(cell) == 'z':
            return YES if op == '=' else NO
        if cell == '' and tid(cell) == 't':
            return EITHER
        if op == '=':
            return NO
        return YES if tid(cell) == 't' else EITHER
    kc, kx = tid(cell), tid(x)
    if kx == 'e':
        if kc != 'e':
            return EITHER if op == '<>' else NO
        return YES if (str(cell).upper() == str(x).upper()) == (op == '=') else NO
    if kc == 'e':
        # an error value satisfies no criterion of another type; for <> the
        # statement (own type) and Excel (everything else) differ
        return EITHER if op == '<>' else NO
    if kc != kx:
        if op == '<>':
            return EITHER               # statement: own type; Excel: counts
        if kx == 'n' and kc == 't' and rs.to_number(cell) != rs.VALUE:
            return EITHER               # numeric-looking text: Excel coerces
        return NO
    if kx == 't':
        rx = wildcard(x) if op in ('=', '<>') else None
        if rx is not None:
            hit = bool(rx.match(cell))
            return YES if hit == (op == '=') else NO
        a, b = cell.casefold(), x.casefold()
        if op in ('=', '<>'):
            return YES if (a == unescape(x).casefold()) == (op == '=') else NO
        if has_escape(x) or not rs.text_order_certain(cell, x):
            return EITHER
    else:
        a, b = cell, x
    r = {'=': a == b, '<>': a != b, '<': a < b, '>': a > b,
         '<=': a <= b, '>=': a >= b}[op]
    return YES if r else NO


def selections(cells, crit):
    """All index sets the definition allows (<= 64), or None."""
    pc = parse_criterion(crit)
    if pc is None:
        return None
    op, x = pc
    marks = [member(c, op, x) for c in cells]
    must = [i for i, m in enumerate(marks) if m == YES]
    may = [i for i, m in enumerate(marks) if m == EITHER]
    if len(may) > 6:
        return None
    out = []
    for n in range(len(may) + 1):
        for extra in itertools.combinations(may, n):
            out.append(sorted(must + list(extra)))
    return out


def countif(cells, crit):
    sel = selections(cells, crit)
    if sel is None:
        return None
    return {xl.c_num(len(s)) for s in sel}


def _pyfloat(v):
    try:
        float(v)
        return True
    except ValueError:
        return False


def _sum_like(cells, crit, values, average):
    sel = selections(cells, crit)
    if sel is None:
        return None
    out = set()
    for s in sel:
        nums = []
        for i in s:
            if i >= len(values):
                return None
            v = values[i]
            if tid(v) == 'e':
                return None
            if tid(v) == 't' and (rs.to_number(v) != rs.VALUE or _pyfloat(v)):
                return None     # numeric text in a summed reference: C12's finding
                                # (the sum reads text with float(): "1_0", "inf" too)
            if tid(v) == 'n':
                nums.append(v)
        if average:
            out.add(xl.c_num(sum(nums) / len(nums)) if nums else DIV0)
        else:
            out.add(xl.c_num(sum(nums)))
    return out


def sumif(cells, crit, values=None):
    return _sum_like(cells, crit, cells if values is None else values, False)


def averageif(cells, crit, values=None):
    return _sum_like(cells, crit, cells if values is None else values, True)
