"""Reference cell-set algebra on rectangles (independent of formulas.ranges).

A rectangle is (sheet, c1, r1, c2, r2), inclusive, 1-based.  Cell multisets
are computed on a coordinate-compressed grid so whole rows/columns are exact.
"""
import bisect
import collections

MAXCOL, MAXROW = 16384, 1048576


def rect_of(d):
    """Rectangle of a formulas range dictionary."""
    c1 = int(d['n1']) or 1
    r1 = int(d['r1']) or 1
    return (d.get('sheet_id', ''), c1, r1, int(d['n2']), int(d['r2']))


def rects_of(ranges_obj):
    return [rect_of(d) for d in ranges_obj.ranges]


def col_name(n):
    s = ''
    while n > 0:
        n, k = divmod(n - 1, 26)
        s = chr(65 + k) + s
    return s


def spell(rect, with_sheet=True):
    s, c1, r1, c2, r2 = rect
    if (c1, c2) == (1, MAXCOL) and (r1, r2) != (1, MAXROW):
        ref = '%d:%d' % (r1, r2)
    elif (r1, r2) == (1, MAXROW) and (c1, c2) != (1, MAXCOL):
        ref = '%s:%s' % (col_name(c1), col_name(c2))
    elif (c1, r1) == (c2, r2):
        ref = '%s%d' % (col_name(c1), r1)
    else:
        ref = '%s%d:%s%d' % (col_name(c1), r1, col_name(c2), r2)
    if s and with_sheet:
        return '%s!%s' % (s, ref)
    return ref


def intersect(a, b):
    if a[0] != b[0]:
        return None
    c1, r1 = max(a[1], b[1]), max(a[2], b[2])
    c2, r2 = min(a[3], b[3]), min(a[4], b[4])
    if c1 <= c2 and r1 <= r2:
        return (a[0], c1, r1, c2, r2)
    return None


def bounding(rects):
    sheets = {r[0] for r in rects}
    if len(sheets) != 1:
        return None
    return (rects[0][0], min(r[1] for r in rects), min(r[2] for r in rects),
            max(r[3] for r in rects), max(r[4] for r in rects))


class Grid:
    """Coordinate compression over a family of rectangles."""

    def __init__(self, *rect_lists):
        xs, ys = {1}, {1}
        for rl in rect_lists:
            for (_, c1, r1, c2, r2) in rl:
                xs.update((c1, c2 + 1))
                ys.update((r1, r2 + 1))
        self.xs, self.ys = sorted(xs), sorted(ys)

    def multiset(self, rects):
        cnt = collections.Counter()
        for (s, c1, r1, c2, r2) in rects:
            x1 = bisect.bisect_left(self.xs, c1)
            x2 = bisect.bisect_left(self.xs, c2 + 1)
            y1 = bisect.bisect_left(self.ys, r1)
            y2 = bisect.bisect_left(self.ys, r2 + 1)
            for x in range(x1, x2):
                for y in range(y1, y2):
                    cnt[(s, x, y)] += 1
        return cnt


def same_multiset(a, b):
    g = Grid(a, b)
    return g.multiset(a) == g.multiset(b)


def same_set(a, b):
    g = Grid(a, b)
    return set(g.multiset(a)) == set(g.multiset(b))


def disjoint(rects):
    g = Grid(rects)
    m = g.multiset(rects)
    return all(v == 1 for v in m.values())


def ref_and(a, b):
    out = []
    for x in a:
        for y in b:
            z = intersect(x, y)
            if z:
                out.append(z)
    return out


def ref_sub_set(a, b):
    """Cells of a not in b as a set of compressed cells (with the grid)."""
    g = Grid(a, b)
    sa, sb = set(g.multiset(a)), set(g.multiset(b))
    return g, sa - sb


def cells(rect):
    s, c1, r1, c2, r2 = rect
    return [(s, c, r) for r in range(r1, r2 + 1) for c in range(c1, c2 + 1)]


def relation(a, b):
    """Relative-position class of two rectangles (coverage evidence)."""
    if a[0] != b[0]:
        return 'other-sheet'
    if a == b:
        return 'identical'
    z = intersect(a, b)
    if z is None:
        touch = (a[3] + 1 >= b[1] and b[3] + 1 >= a[1] and
                 a[4] + 1 >= b[2] and b[4] + 1 >= a[2])
        return 'touching' if touch else 'disjoint'
    if z == a or z == b:
        return 'contained'
    return 'overlapping'
