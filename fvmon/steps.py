"""Logical step counting (bounded-progress restatement of termination).

Counts Python function entries (PY_START) in code under /repo/formulas and
schedula through sys.monitoring; when a budget is exceeded the callback raises
StepBudgetExceeded (a BaseException, so `except Exception` in the observed code
cannot swallow it).  Wall-clock never decides anything here.
"""
import sys

TOOL = 3


class StepBudgetExceeded(BaseException):
    pass


class Steps:
    def __init__(self, roots):
        self.roots = tuple(roots)
        self.count = 0
        self.limit = None
        self.active = False
        self._on = False

    def _start(self, code, offset):
        if not self.active:
            return None
        fn = code.co_filename
        if not fn.startswith(self.roots):
            return sys.monitoring.DISABLE
        self.count += 1
        if self.limit is not None and self.count > self.limit:
            self.limit = None
            raise StepBudgetExceeded(self.count)
        return None

    def install(self):
        if self._on:
            return
        m = sys.monitoring
        try:
            m.use_tool_id(TOOL, 'fvmon-steps')
        except ValueError:
            pass
        m.register_callback(TOOL, m.events.PY_START, self._start)
        m.set_events(TOOL, m.events.PY_START)
        self._on = True

    def run(self, fn, limit):
        """Run fn() under a step budget; returns (steps, result, exception)."""
        self.install()
        self.count, self.limit, self.active = 0, limit, True
        try:
            res = fn()
            return self.count, res, None
        except StepBudgetExceeded as ex:
            return self.count, None, ex
        except BaseException as ex:   # judged by the caller
            return self.count, None, ex
        finally:
            self.active = False
            self.limit = None


def make(repo):
    import os
    import schedula
    return Steps([os.path.join(repo, 'formulas'),
                  os.path.dirname(schedula.__file__)])
