#!/usr/bin/env python3
"""keep_seed.py <srcdir> <n> <seed-id> <prop> <seedtest-json> [caught-by text]"""
import sys, os, json, shutil
src, n, sid, prop, res = sys.argv[1:6]
note = sys.argv[6] if len(sys.argv) > 6 else ''
dst = os.path.join(os.path.dirname(os.path.dirname(os.path.abspath(__file__))), 'seeded', sid)
os.makedirs(dst, exist_ok=True)
shutil.copy(os.path.join(src, 'patch%s.diff' % n), os.path.join(dst, 'patch.diff'))
shutil.copy(os.path.join(src, 'demo%s.py' % n), os.path.join(dst, 'demo.py'))
notes = os.path.join(src, 'notes%s.md' % n)
if os.path.exists(notes):
    shutil.copy(notes, os.path.join(dst, 'notes.md'))
r = json.load(open(res))
meta = {
    'breaks_property': prop,
    'needs_to_manifest': open(notes).read()[:1500] if os.path.exists(notes) else '',
    'confirmed': {
        'patch_applies_on_repo_HEAD': r.get('applies'),
        'demo_exit_without_change': r.get('demo_without'),
        'demo_exit_with_change': r.get('demo_with'),
        'repo_suite_with_change': r.get('suite'),
    },
    'what_i_ran': 'tools/seedtest.py (scratch worktree of /repo HEAD: demo without/with patch, repo suite with patch vs BASELINE stable_pass, ./check %s --tier quick with FVMON_REPO=<worktree>)' % prop,
    'check_result': {k: v for k, v in r.items() if k.startswith('check_')},
    'caught_by': note,
}
json.dump(meta, open(os.path.join(dst, 'meta.json'), 'w'), indent=1)
print(dst)
