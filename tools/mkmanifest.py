#!/usr/bin/env python3
"""Regenerates MANIFEST.json from the table below; a property is claimed only
when its check module exists, otherwise it is listed under not_applicable."""
import os
import json

HERE = os.path.dirname(os.path.dirname(os.path.abspath(__file__)))

BASELINE_OFF = ("cd /repo && env -u FORMULAS_VERIF /venv/bin/python -m pytest "
                "-ra -q -p no:cacheprovider --timeout=900 "
                "--continue-on-collection-errors")

TRUST = ("trusted base: the reference rules in fvmon/ref and the per-property "
         "oracle code, CPython 3.12, numpy, schedula's dispatcher, openpyxl as "
         "writer/reader of generated workbooks; reach is limited to the "
         "executions the workloads drive (counts in the evidence file)")

CHECKS = {
    'C01': ('reference-model monitor + metamorphic spelling monitor on the parser API',
            'runtime monitoring: every generated formula tree is spelled several ways, parsed and compiled by the real code and compared with an independent renderer/evaluator; exhaustive over operator pairs and triples, random to depth 5', '4/C01'),
    'C02': ('reference-model monitor on operator events (literal and cell paths)',
            'runtime monitoring: the full operand-kind cross product is driven through both observation paths of every operator and each result is judged by an accept-set reference of Excel scalar semantics plus well-formedness', '4/C02'),
    'C03': ('fixed-point invariant at calculate() + reference workbook model + offline cross-order/hash-seed log checker',
            'runtime monitoring: generated workbooks are loaded by both paths in several insertion/sheet/book orders and hash seeds; solutions are compared with a reference evaluation and with each other', '4/C03'),
    'C04': ('metamorphic monitor over reference spellings + collision dictionary + exhaustive column bijection',
            'runtime monitoring: all 16384 columns and boundary/random rectangles are spelled in every listed way through the real Range/Ranges API; names must agree within a class, differ across classes and re-read to themselves', '4/C04'),
    'C05': ('differential monitor: array call vs the same real function on scalars; fitting reference',
            'runtime monitoring: element-wise operators/functions are called on every shape combination and compared position by position with scalar calls of the same real function; destination fitting compared with a reference', '4/C05'),
    'C06': ('contracts (cell-set algebra) on live Ranges operations, exhaustive rectangle pairs',
            'runtime monitoring: postconditions on Ranges & | + - simplify and .value over all rectangle pairs of a 4x4/5x5 grid, random multi-area operands and formula-level models', '4/C06'),
    'C07': ('differential history monitor (live model vs fresh model) + reference with overrides as constants',
            'runtime monitoring: random histories of calculate/compile/to_dict/write/copy precede an observed calculation whose result must equal a fresh model and the reference', '4/C07'),
    'C08': ('online differential monitor: compiled function vs interpreted calculation',
            'runtime monitoring: every compiled function call is shadowed by the interpreted path on the same arguments', '4/C08'),
    'C09': ('round-trip differential monitor on to_dict/from_dict and re-parse of exported text',
            'runtime monitoring: every export is re-imported, recalculated and re-exported; values and second export must equal the first', '4/C09'),
    'C10': ('reference cycle enumeration (exhaustive small graphs) + lazy reference workbook + step-budget monitor',
            'runtime monitoring: simple_cycles compared with brute force on all graphs <=4 nodes; cyclic workbooks judged clause by clause', '4/C10'),
    'C11': ('totality / well-formedness / error-propagation monitor on every function-table entry',
            'runtime monitoring: every function name x admissible arity x argument kinds, direct and Cell path; any exception, foreign value or lost error is a violation', '4/C11'),
    'C12': ('reference-model monitor (accept-sets) for the core function library through the Cell path',
            'runtime monitoring: per-function reference definitions judged on generated argument tuples, typed vs referenced forms', '4/C12'),
    'C13': ('history monitor with counting RNG and virtual clock (unique primitive values)',
            'runtime monitoring: volatile primitives are replaced by uniquely identifiable sources; outputs are decoded to the primitive call that produced them across epochs and acquisition paths', '4/C13'),
    'C14': ('fault-injection differential monitor against the fault-free twin workbook',
            'runtime monitoring: unknown functions, absent sheets/books/names are injected; non-dependents must equal the twin, dependents must be interceptable errors', '4/C14'),
    'C15': ('differential monitor: from_ranges partial load vs full load; idempotence of finish/complete',
            'runtime monitoring: for generated multi-sheet/multi-book xlsx workbooks every chosen output set is loaded partially and compared with the full model', '4/C15'),
    'C16': ('write/read-back monitor with before/after snapshot of target books',
            'runtime monitoring: written books are read back with openpyxl and the package reader and compared cell for cell with the solution', '4/C16'),
    'C17': ('interleaved-history differential monitor on original vs deepcopy/dill copy',
            'runtime monitoring: operations are interleaved on original and copy; each result must equal a fresh model given the same last operation', '4/C17'),
    'C18': ('exception-type + step-budget monitor on Parser.ast over mutated/hostile strings; independent invalidity classifier',
            'runtime monitoring: token soups, noise and single-edit mutations; only FormulaError may escape, certainly-invalid strings must be rejected, numeric literals must evaluate to their value', '4/C18'),
    'C19': ('reference-model monitor (linear-scan definitions) + INDEX/MATCH composition differential',
            'runtime monitoring: systematic lookup values over all positions of generated key vectors/tables and criteria', '4/C19'),
    'C20': ('reference-model monitor over exhaustive domains (all serials, seconds, binary values, ROMAN arguments)',
            'runtime monitoring: the real function-table entries are driven over the whole calendar / second-of-day / 10-digit binary / ROMAN domains (octal and hex sampled with boundaries) and compared with an independent reference; thorough tier is exhaustive where the property says so', '4/C20'),
}

NOT_YET = 'check not yet built in this round (runtime-monitoring design in DESIGN.md section 4); nothing is claimed for it'


def main():
    checks, na = [], []
    for pid, (tech, text, ref) in sorted(CHECKS.items()):
        if os.path.exists(os.path.join(HERE, 'fvmon', 'props', pid.lower() + '.py')):
            checks.append({
                'property_id': pid,
                'quick_cmd': './check %s --tier quick' % pid,
                'thorough_cmd': './check %s --tier thorough' % pid,
                'evidence_file': 'evidence/%s.json' % pid,
                'replay_cmd_template': './check %s --replay {path}' % pid,
                'engine': 'fvmon',
                'level_claimed': {
                    'category': 'exploration', 'text': text,
                    'design_ref': 'DESIGN.md section ' + ref},
                'level_note': TRUST,
                'technique': tech,
            })
        else:
            na.append({'property_id': pid, 'reason': NOT_YET})
    man = {
        'version': 1,
        'setup_cmd': './check --setup',
        'hooks': {
            'guard': 'FORMULAS_VERIF',
            'enable': ('exported by ./check for its worker processes and read '
                       'only by /verif/fvmon/bootstrap.py; all probes are '
                       'attached from outside at import time, /repo has no '
                       'source hooks'),
            'baseline_off_cmd': BASELINE_OFF,
            'source_commits': [],
            'add_only': True,
        },
        'engines': [{
            'name': 'fvmon', 'path': 'fvmon',
            'serves_properties': [c['property_id'] for c in checks],
            'kind_free_text': ('runtime monitors (reference-model, '
                               'differential, invariant, offline log checkers) '
                               'over generated executions of the real code'),
        }],
        'checks': checks,
        'not_applicable': na,
        'notes': ('Exit codes: 0 held / 1 violation / 2 inconclusive. Known '
                  'findings: known_findings.json (matched by mechanism).'),
    }
    with open(os.path.join(HERE, 'MANIFEST.json'), 'w') as f:
        json.dump(man, f, indent=1)
        f.write('\n')


if __name__ == '__main__':
    main()
