#!/usr/bin/env python3
"""Regenerates the generated tables of DESIGN.md (between the two markers)
from known_findings.json and seeded/*/meta.json."""
import os
import re
import glob
import json

VERIF = os.path.dirname(os.path.dirname(os.path.abspath(__file__)))
BEGIN, END = '<!-- BEGIN GENERATED TABLES -->', '<!-- END GENERATED TABLES -->'


def esc(s):
    return str(s).replace('|', '\\|').replace('\n', ' ')


def tables():
    d = json.load(open(os.path.join(VERIF, 'known_findings.json')))
    out = ['#### Repaired (`fix:` commits in /repo, in the order they were made)', '',
           '| property | commit | what failed |', '|---|---|---|']
    for f in d['fixed']:
        m = re.match(r'fixed: property=(\S+) (\S+) (.*)', f, re.S)
        out.append('| %s | `%s` | %s |' % (m.group(1), m.group(2), esc(m.group(3))))
    out += ['', '#### Open findings (listed in `known_findings.json`, matched by mechanism)', '',
            '| id | what fails |', '|---|---|']
    for f in d['findings']:
        if f['status'] == 'open':
            out.append('| %s | %s |' % (f['id'], esc(f['what'])[:600]))
    out += ['', '#### Seeded changes', '', '| seed | touches | caught by |', '|---|---|---|']
    for p in sorted(glob.glob(os.path.join(VERIF, 'seeded', '*'))):
        m = json.load(open(os.path.join(p, 'meta.json')))
        files = sorted(set(re.findall(r'^\+\+\+ b/(\S+)', open(os.path.join(p, 'patch.diff')).read(), re.M)))
        out.append('| %s | %s | %s |' % (
            os.path.basename(p), ', '.join('`%s`' % f.replace('formulas/', '') for f in files),
            esc(m.get('caught_by', ''))[:400]))
    return '\n'.join(out)


def main():
    p = os.path.join(VERIF, 'DESIGN.md')
    s = open(p).read()
    i, j = s.index(BEGIN), s.index(END)
    s = s[:i + len(BEGIN)] + '\n\n' + tables() + '\n\n' + s[j:]
    open(p, 'w').write(s)


if __name__ == '__main__':
    main()
