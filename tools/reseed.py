#!/usr/bin/env python3
"""Re-runs every stored seeded change against the current checks.

usage: reseed.py [seed-id-prefix ...]
For each /verif/seeded/<id>: scratch worktree of /repo HEAD, apply patch.diff,
run the demo (must exit 1) and ./check <prop> with FVMON_REPO=<worktree>
(must exit 1).  Prints one line per seed and a summary; exit 1 if a seed that
breaks the property is not caught.  Worktrees are removed as soon as done.
"""
import os
import sys
import json
import glob
import subprocess

VERIF = os.path.dirname(os.path.dirname(os.path.abspath(__file__)))


def sh(cmd, cwd=None, env=None, timeout=3600):
    r = subprocess.run(cmd, shell=True, cwd=cwd, env=env, timeout=timeout,
                       stdout=subprocess.PIPE, stderr=subprocess.STDOUT)
    return r.returncode, r.stdout.decode(errors='replace')


def main():
    want = sys.argv[1:]
    bad = 0
    for d in sorted(glob.glob(os.path.join(VERIF, 'seeded', '*'))):
        sid = os.path.basename(d)
        if want and not any(sid.startswith(w) for w in want):
            continue
        prop = sid.split('-')[0]
        wt = '/root/.cache/fvmon-reseed-%d' % os.getpid()
        sh('git -C /repo worktree add -q --detach %s HEAD' % wt)
        try:
            rc, o = sh('git apply %s' % os.path.join(d, 'patch.diff'), cwd=wt)
            if rc:
                print('%-45s patch does not apply' % sid)
                bad += 1
                continue
            env = dict(os.environ, PYTHONPATH=wt)
            demo, _ = sh('/venv/bin/python %s' % os.path.join(d, 'demo.py'), cwd=wt, env=env)
            meta = json.load(open(os.path.join(d, 'meta.json')))
            env = dict(os.environ, FVMON_REPO=wt)
            rc, sigs = 0, []
            for chk in meta.get('checks') or [prop]:
                rc1, o = sh('./check %s --tier quick' % chk, cwd=VERIF, env=env)
                sigs += ['%s:%s' % (chk, l.strip()[4:60]) for l in o.splitlines()
                         if l.startswith('  sig=')]
                rc = 1 if rc1 == 1 else (rc or rc1)
            verdict = 'caught' if rc == 1 else ('NOT CAUGHT rc=%d' % rc)
            if demo == 0:
                verdict += ' (demo exits 0: the change does not break the property on this tree)'
            elif meta.get('expected') == 'not-caught':
                verdict += ' (expected: %s)' % meta.get('expected_why', '')[:80]
            elif rc != 1:
                bad += 1
            print('%-45s demo=%d check=%d %s %s' % (sid, demo, rc, verdict, sigs[:2]))
            sys.stdout.flush()
        finally:
            sh('git -C /repo worktree remove --force %s' % wt)
    print('seeds not caught:', bad)
    sys.exit(1 if bad else 0)


if __name__ == '__main__':
    main()
