#!/bin/sh
# Runs the repository's own suite (guard off) in a scratch worktree of /repo HEAD
# (or the working tree when called with --here); prints the summary line.
set -e
out=${1:-/tmp/suite.log}
wt=/root/.cache/fvmon-suite-$$
git -C /repo worktree add -q --detach "$wt" HEAD
trap 'git -C /repo worktree remove --force "$wt" >/dev/null 2>&1 || true' EXIT
mkdir -p "$wt/test/test_files/tmp"
cd "$wt" && env -u FORMULAS_VERIF PYTHONPATH="$wt" /venv/bin/python -m pytest -q -p no:cacheprovider --timeout=900 -n 6 test > "$out" 2>&1 || true
tail -3 "$out"
# test_excel_model fails on the pinned tree already (Errors(2): LOOKUP!AL19, LOOKUP!Y20);
# any other entry in its list is a regression hidden behind that failure.
grep -A12 "Errors(" "$out" | grep -E "Errors\(|: \[TEST" | sed 's/object at 0x[0-9a-f]*//' | head -14
