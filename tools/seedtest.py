#!/usr/bin/env python3
"""Confirms a seeded change and runs a check against it, in a scratch worktree.

usage: seedtest.py <patch.diff> <demo.py> <Cxx> [--no-suite] [--tier quick]
Prints a JSON summary: patch applies, demo exits 1 with / 0 without the change,
the repository suite's passing set still covers BASELINE stable_pass, and the
exit code + VIOLATION/KNOWN lines of ./check Cxx run with FVMON_REPO=<worktree>.
"""
import os
import sys
import json
import shutil
import subprocess
import xml.etree.ElementTree as ET

VERIF = os.path.dirname(os.path.dirname(os.path.abspath(__file__)))


def sh(cmd, cwd=None, env=None, timeout=3600):
    r = subprocess.run(cmd, shell=True, cwd=cwd, env=env, timeout=timeout,
                       stdout=subprocess.PIPE, stderr=subprocess.STDOUT)
    return r.returncode, r.stdout.decode(errors='replace')


def suite(wt):
    xml = os.path.join(wt, '.junit.xml')
    env = dict(os.environ, PYTHONPATH=wt)
    env.pop('FORMULAS_VERIF', None)
    os.makedirs(os.path.join(wt, 'test/test_files/tmp'), exist_ok=True)
    rc, log = sh('/venv/bin/python -m pytest -q -p no:cacheprovider --timeout=900 -n 6 '
                 '--junitxml=%s test' % xml, cwd=wt, env=env)
    import re
    errs = sorted(set(re.findall(r'\[TEST[^\]]*\][A-Z]+![A-Z]+[0-9]+', log)))
    passed = set()
    for tc in ET.parse(xml).getroot().iter('testcase'):
        if not any(ch.tag in ('failure', 'error', 'skipped') for ch in tc):
            passed.add('%s::%s' % (tc.get('classname'), tc.get('name')))
    base = set(json.load(open('/root/.vp/BASELINE.json'))['stable_pass'])
    return {'passed': len(passed), 'baseline': len(base),
            'missing_from_baseline': sorted(base - passed)[:10],
            'test_excel_model_error_cells': errs,
            'test_excel_model_errors_as_HEAD(none)': errs == [] or errs == [
                '[TEST.XLSX]LOOKUP!AL19', '[TEST.XLSX]LOOKUP!Y20']}


def main():
    patch, demo, prop = sys.argv[1:4]
    opts = sys.argv[4:]
    tier = 'quick'
    if '--tier' in opts:
        tier = opts[opts.index('--tier') + 1]
    wt = '/root/.cache/fvmon-seed-%d' % os.getpid()
    out = {'patch': patch, 'prop': prop}
    sh('git -C /repo worktree add -q --detach %s HEAD' % wt)
    try:
        env = dict(os.environ, PYTHONPATH=wt)
        rc, o = sh('/venv/bin/python %s' % os.path.abspath(demo), cwd=wt, env=env)
        out['demo_without'] = rc
        rc, o = sh('git apply %s' % os.path.abspath(patch), cwd=wt)
        out['applies'] = rc == 0
        if rc != 0:
            out['apply_msg'] = o[-500:]
            print(json.dumps(out, indent=1))
            return 1
        rc, o = sh('/venv/bin/python %s' % os.path.abspath(demo), cwd=wt, env=env)
        out['demo_with'] = rc
        out['demo_output'] = o[-600:]
        if '--no-suite' not in opts:
            out['suite'] = suite(wt)
        for p in prop.split(','):
            env2 = dict(os.environ, FVMON_REPO=wt)
            rc, o = sh('./check %s --tier %s' % (p, tier), cwd=VERIF, env=env2)
            out['check_%s_rc' % p] = rc
            out['check_%s_lines' % p] = [
                ln[:300] for ln in o.splitlines()
                if ln.startswith(('VIOLATION', 'INCONCLUSIVE', '  sig='))][:12]
    finally:
        sh('git -C /repo worktree remove --force %s' % wt)
        shutil.rmtree(wt, ignore_errors=True)
    print(json.dumps(out, indent=1))
    return 0


if __name__ == '__main__':
    sys.exit(main())
